package confirm

// Real-kernel confirmation of finding D14: when the inotify queue overflows
// (more than fs.inotify.max_queued_events events pile up while the watcher
// goroutine is busy), the kernel drops events and fsnotify reports
// ErrEventOverflow on its Errors channel.  The cache ignores that error.  If
// the events that did get through are all ones it filters out (writes to
// files without a .json/.yaml name), nothing ever triggers a refresh and the
// cache stays stale indefinitely although a Spec file was added.
//
// The schedule is pinned with a Spec validator that blocks the watcher
// goroutine inside its refresh (after the directory has been listed).

import (
	"os"
	"path/filepath"
	"sync/atomic"
	"testing"
	"time"

	"tags.cncf.io/container-device-interface/pkg/cdi"
	specs "tags.cncf.io/container-device-interface/specs-go"
)

type blockingValidator struct {
	armed   atomic.Bool
	entered chan struct{}
	release chan struct{}
}

func (v *blockingValidator) Validate(*specs.Spec) error {
	if v.armed.CompareAndSwap(true, false) {
		close(v.entered)
		<-v.release
	}
	return nil
}

func TestD14QueueOverflowIsIgnored(t *testing.T) {
	dir := t.TempDir()
	zz := filepath.Join(dir, "zz.json")
	_ = os.WriteFile(zz, []byte(good), 0o644)
	v := &blockingValidator{entered: make(chan struct{}), release: make(chan struct{})}
	cdi.SetSpecValidator(v)
	defer cdi.SetSpecValidator(nil)
	c, _ := cdi.NewCache(cdi.WithSpecDirs(dir), cdi.WithAutoRefresh(true))
	if len(c.ListDevices()) != 1 {
		t.Fatalf("setup: %v", c.ListDevices())
	}
	// make the watcher goroutine refresh, and hold it inside that refresh
	v.armed.Store(true)
	_ = os.WriteFile(zz, []byte(good+"\n"), 0o644)
	select {
	case <-v.entered:
	case <-time.After(3 * time.Second):
		t.Fatal("the watcher goroutine did not start a refresh")
	}
	// a burst of events the cache filters out (no Spec extension), long enough to overflow the queue
	x, y := filepath.Join(dir, "x.tmp"), filepath.Join(dir, "y.tmp")
	fx, _ := os.Create(x)
	fy, _ := os.Create(y)
	for i := 0; i < 20000; i++ {
		_, _ = fx.Write([]byte("x"))
		_, _ = fy.Write([]byte("y"))
	}
	fx.Close()
	fy.Close()
	// the change that matters: its event is dropped by the kernel
	added := `{"cdiVersion":"0.6.0","kind":"vendor.com/net","devices":[{"name":"dev0","containerEdits":{"env":["B=1"]}}]}`
	_ = os.WriteFile(filepath.Join(dir, "a.json"), []byte(added), 0o644)
	close(v.release)
	ok := waitFor(func() bool { return c.GetDevice("vendor.com/net=dev0") != nil })
	if !ok {
		fresh, _ := cdi.NewCache(cdi.WithSpecDirs(dir), cdi.WithAutoRefresh(false))
		t.Errorf("after the inotify queue overflowed the cache never refreshed: it lists %v, a fresh cache lists %v", c.ListDevices(), fresh.ListDevices())
	}
}
