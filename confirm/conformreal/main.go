// conformreal executes a list of file-system operations on a real temporary
// directory watched by the REAL fsnotify library and prints, per operation,
// the errno of the operation and the events delivered.  Its output is
// compared with harness/cmd/conformsim (same operations on the simulated
// kernel + fsnotify stub) by conformance.py.
package main

import (
	"encoding/json"
	"fmt"
	"os"
	"path/filepath"
	"sort"
	"strings"
	"syscall"
	"time"

	"github.com/fsnotify/fsnotify"
)

type Op struct {
	Kind string `json:"kind"`
	A    string `json:"a"`
	B    string `json:"b"`
	Data string `json:"data"`
}

type Res struct {
	Err    string   `json:"err"`
	Events []string `json:"events"`
	AddErr string   `json:"adderr,omitempty"`
}

func errno(err error) string {
	if err == nil {
		return "ok"
	}
	var e syscall.Errno
	for x := err; x != nil; {
		if en, ok := x.(syscall.Errno); ok {
			e = en
			break
		}
		u, ok := x.(interface{ Unwrap() error })
		if !ok {
			break
		}
		x = u.Unwrap()
	}
	switch e {
	case syscall.ENOENT:
		return "ENOENT"
	case syscall.EEXIST:
		return "EEXIST"
	case syscall.ENOTDIR:
		return "ENOTDIR"
	case syscall.EISDIR:
		return "EISDIR"
	case syscall.ENOTEMPTY:
		return "ENOTEMPTY"
	case syscall.EPERM:
		return "EPERM"
	case syscall.EINVAL:
		return "EINVAL"
	case syscall.ELOOP:
		return "ELOOP"
	}
	return "E:" + err.Error()
}

var settle = 60 * time.Millisecond

func main() {
	if v := os.Getenv("CONFORM_SETTLE_MS"); v != "" {
		var n int
		fmt.Sscan(v, &n)
		settle = time.Duration(n) * time.Millisecond
	}
	var ops []Op
	if err := json.NewDecoder(os.Stdin).Decode(&ops); err != nil {
		panic(err)
	}
	root, _ := os.MkdirTemp("", "conform")
	defer os.RemoveAll(root)
	rel := func(p string) string { return filepath.Join(root, p) }
	_ = os.MkdirAll(rel("D"), 0o755)
	_ = os.MkdirAll(rel("S"), 0o755)
	w, err := fsnotify.NewWatcher()
	if err != nil {
		panic(err)
	}
	_ = w.Add(rel("D"))
	var out []Res
	collect := func() []string {
		var evs []string
		quiet := time.NewTimer(settle)
		for {
			select {
			case ev := <-w.Events:
				name := strings.TrimPrefix(ev.Name, root+"/")
				evs = append(evs, ev.Op.String()+" "+name)
				if !quiet.Stop() {
					<-quiet.C
				}
				quiet.Reset(settle)
			case err := <-w.Errors:
				evs = append(evs, "ERROR "+fmt.Sprint(err))
			case <-quiet.C:
				return evs
			}
		}
	}
	for _, op := range ops {
		var e error
		r := Res{}
		switch op.Kind {
		case "create":
			var f *os.File
			f, e = os.OpenFile(rel(op.A), os.O_WRONLY|os.O_CREATE|os.O_EXCL, 0o644)
			if e == nil {
				f.Close()
			}
		case "writefile":
			e = os.WriteFile(rel(op.A), []byte(op.Data), 0o644)
		case "append":
			var f *os.File
			f, e = os.OpenFile(rel(op.A), os.O_WRONLY|os.O_APPEND, 0)
			if e == nil {
				_, e = f.Write([]byte(op.Data))
				f.Close()
			}
		case "truncate":
			e = os.Truncate(rel(op.A), 0)
		case "rename":
			e = syscall.Rename(rel(op.A), rel(op.B))
		case "unlink":
			e = syscall.Unlink(rel(op.A))
		case "link":
			e = os.Link(rel(op.A), rel(op.B))
		case "symlink":
			e = os.Symlink(op.A, rel(op.B))
		case "chmod":
			e = os.Chmod(rel(op.A), 0o600)
		case "mkdir":
			e = os.Mkdir(rel(op.A), 0o755)
		case "rmdir":
			e = syscall.Rmdir(rel(op.A))
		case "add":
			e = w.Add(rel(op.A))
		}
		r.Err = errno(e)
		r.Events = collect()
		out = append(out, r)
	}
	// final listing
	var names []string
	filepath.Walk(root, func(p string, info os.FileInfo, err error) error {
		if err == nil && p != root {
			names = append(names, strings.TrimPrefix(p, root+"/"))
		}
		return nil
	})
	sort.Strings(names)
	json.NewEncoder(os.Stdout).Encode(map[string]any{"results": out, "listing": names})
}
