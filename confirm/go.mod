module verifconfirm

go 1.20

require (
	github.com/fsnotify/fsnotify v1.5.1
	github.com/opencontainers/runtime-spec v1.1.0
	tags.cncf.io/container-device-interface v0.0.0
	tags.cncf.io/container-device-interface/specs-go v1.0.0
)

require (
	github.com/opencontainers/runtime-tools v0.9.1-0.20221107090550-2e043c6bd626 // indirect
	github.com/syndtr/gocapability v0.0.0-20200815063812-42c35b437635 // indirect
	golang.org/x/mod v0.19.0 // indirect
	golang.org/x/sys v0.19.0 // indirect
	gopkg.in/yaml.v3 v3.0.1 // indirect
	sigs.k8s.io/yaml v1.4.0 // indirect
)

replace tags.cncf.io/container-device-interface => /repo

replace tags.cncf.io/container-device-interface/specs-go => /repo/specs-go
