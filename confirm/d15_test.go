package confirm

// Real-kernel confirmation of finding D15: with auto-refresh, the scan error
// recorded for a Spec directory that cannot be stat'ed (a path component is a
// regular file) outlives its cause: when the path is repaired and the
// directory then disappears again before the next query, nothing is watched,
// no event is raised, the next query only notices "does not exist" - and does
// not refresh.  Refresh() keeps returning "not a directory" for a path that is
// simply missing, which a fresh cache reports as no error at all.

import (
	"os"
	"path/filepath"
	"strings"
	"testing"

	"tags.cncf.io/container-device-interface/pkg/cdi"
)

func TestD15StaleScanErrorOfUnwatchableDirectory(t *testing.T) {
	root := t.TempDir()
	blocker := filepath.Join(root, "run")
	dir := filepath.Join(blocker, "cdi")
	_ = os.WriteFile(blocker, []byte("a regular file\n"), 0o644)
	c, _ := cdi.NewCache(cdi.WithSpecDirs(dir), cdi.WithAutoRefresh(true))
	if err := c.Refresh(); err == nil || !strings.Contains(err.Error(), "not a directory") {
		t.Fatalf("setup: expected a 'not a directory' error, got %v", err)
	}
	// repair the path, then the directory goes away again; no query in between
	_ = os.Remove(blocker)
	_ = os.MkdirAll(dir, 0o755)
	_ = os.RemoveAll(dir)
	_ = c.ListDevices() // a query: retries to watch the directory
	fresh, _ := cdi.NewCache(cdi.WithSpecDirs(dir), cdi.WithAutoRefresh(false))
	if ferr, err := fresh.Refresh(), c.Refresh(); ferr == nil && err != nil {
		t.Errorf("the directory is simply missing (a fresh cache reports no error), but Refresh() still returns: %v", err)
	}
}
