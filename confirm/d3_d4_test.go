package confirm

// Real-kernel, real-library confirmation of findings D3 and D4: a Spec file
// whose kind has a one-letter vendor or class, or whose edits contain a null
// list entry, crashes the loader (and with it the whole refresh) instead of
// being loaded / producing an error entry.

import (
	"os"
	"path/filepath"
	"testing"

	"tags.cncf.io/container-device-interface/pkg/cdi"
)

func loadDir(t *testing.T, files map[string]string) (c *cdi.Cache, panicked any) {
	dir := t.TempDir()
	for n, data := range files {
		if err := os.WriteFile(filepath.Join(dir, n), []byte(data), 0o644); err != nil {
			t.Fatal(err)
		}
	}
	defer func() { panicked = recover() }()
	c, _ = cdi.NewCache(cdi.WithSpecDirs(dir), cdi.WithAutoRefresh(false))
	return c, nil
}

const good = `{"cdiVersion":"0.6.0","kind":"vendor.com/gpu","devices":[{"name":"dev0","containerEdits":{"env":["A=1"]}}]}`

func TestD3OneLetterVendorOrClass(t *testing.T) {
	for _, kind := range []string{"v/gpu", "vendor.com/c", "a/b"} {
		c, p := loadDir(t, map[string]string{
			"good.json": good,
			"one.json":  `{"cdiVersion":"0.6.0","kind":"` + kind + `","devices":[{"name":"dev0","containerEdits":{"env":["A=1"]}}]}`,
		})
		if p != nil {
			t.Errorf("kind %q: loading the directory panicked: %v", kind, p)
			continue
		}
		if c.GetDevice("vendor.com/gpu=dev0") == nil {
			t.Errorf("kind %q: the good file's device does not resolve", kind)
		}
		if c.GetDevice(kind+"=dev0") == nil {
			t.Errorf("kind %q: a single letter is a valid vendor/class, the device must resolve; errors: %v", kind, c.GetErrors())
		}
	}
}

func TestD4NullListEntries(t *testing.T) {
	for _, edits := range []string{`"deviceNodes":[null]`, `"hooks":[null]`, `"mounts":[null]`} {
		c, p := loadDir(t, map[string]string{
			"good.json": good,
			"null.json": `{"cdiVersion":"0.6.0","kind":"vendor.com/net","devices":[{"name":"dev0","containerEdits":{"env":["A=1"],` + edits + `}}]}`,
		})
		if p != nil {
			t.Errorf("%s: loading the directory panicked: %v", edits, p)
			continue
		}
		if c.GetDevice("vendor.com/gpu=dev0") == nil {
			t.Errorf("%s: the good file's device does not resolve", edits)
		}
		if len(c.GetErrors()) != 1 {
			t.Errorf("%s: want exactly one error entry (for null.json), got %v", edits, c.GetErrors())
		}
		if c.GetDevice("vendor.com/net=dev0") != nil {
			t.Errorf("%s: a Spec with a null list entry must be rejected", edits)
		}
	}
}
