package confirm

// Real-library confirmation of finding D8: the first injection writes
// hostPath/type/major/minor into the *cached* device node, so the cache is
// no longer what was loaded (a cached 0.3.0 Spec cannot be written back, and
// later injections use remembered numbers instead of the current host node).

import (
	"encoding/json"
	"os"
	"path/filepath"
	"testing"

	oci "github.com/opencontainers/runtime-spec/specs-go"
	"tags.cncf.io/container-device-interface/pkg/cdi"
)

func TestD8InjectionMutatesTheCache(t *testing.T) {
	dir := t.TempDir()
	doc := `{"cdiVersion":"0.3.0","kind":"vendor.com/gpu","devices":[{"name":"dev0","containerEdits":{"deviceNodes":[{"path":"/dev/null"}]}}]}`
	_ = os.WriteFile(filepath.Join(dir, "a.json"), []byte(doc), 0o644)
	c, _ := cdi.NewCache(cdi.WithSpecDirs(dir), cdi.WithAutoRefresh(false))
	d := c.GetDevice("vendor.com/gpu=dev0")
	if d == nil {
		t.Fatal("device does not resolve")
	}
	before, _ := json.Marshal(d.Device)
	if _, err := c.InjectDevices(&oci.Spec{}, "vendor.com/gpu=dev0"); err != nil {
		t.Fatal(err)
	}
	after, _ := json.Marshal(c.GetDevice("vendor.com/gpu=dev0").Device)
	if string(before) != string(after) {
		t.Errorf("the cached device changed by injecting it:\n before: %s\n after:  %s", before, after)
	}
	if err := c.WriteSpec(d.GetSpec().Spec, "copy"); err != nil {
		t.Errorf("the cached Spec can no longer be written back: %v", err)
	}
}
