package confirm

// Real-kernel confirmation of finding D5: with auto-refresh on, a Spec file
// that appears in a watched directory through an operation that only raises
// a CREATE event (moved in from another directory, hard-linked in, created
// empty) is never noticed on Linux; the cache stays stale indefinitely.

import (
	"os"
	"path/filepath"
	"testing"
	"time"

	"tags.cncf.io/container-device-interface/pkg/cdi"
)

func waitFor(cond func() bool) bool {
	deadline := time.Now().Add(3 * time.Second)
	for time.Now().Before(deadline) {
		if cond() {
			return true
		}
		time.Sleep(20 * time.Millisecond)
	}
	return cond()
}

func TestD5CreateOnlyChanges(t *testing.T) {
	for _, how := range []string{"move-in", "hard-link", "empty-create"} {
		t.Run(how, func(t *testing.T) {
			root := t.TempDir()
			dir := filepath.Join(root, "cdi")
			staging := filepath.Join(root, "staging")
			_ = os.MkdirAll(dir, 0o755)
			_ = os.MkdirAll(staging, 0o755)
			c, _ := cdi.NewCache(cdi.WithSpecDirs(dir), cdi.WithAutoRefresh(true))
			if len(c.ListDevices()) != 0 {
				t.Fatal("cache not empty")
			}
			src := filepath.Join(staging, "a.json")
			dst := filepath.Join(dir, "a.json")
			switch how {
			case "move-in":
				_ = os.WriteFile(src, []byte(good), 0o644)
				if err := os.Rename(src, dst); err != nil {
					t.Fatal(err)
				}
			case "hard-link":
				_ = os.WriteFile(src, []byte(good), 0o644)
				if err := os.Link(src, dst); err != nil {
					t.Fatal(err)
				}
			case "empty-create":
				f, err := os.Create(dst)
				if err != nil {
					t.Fatal(err)
				}
				f.Close()
			}
			fresh, _ := cdi.NewCache(cdi.WithSpecDirs(dir), cdi.WithAutoRefresh(false))
			ok := waitFor(func() bool {
				return len(c.ListDevices()) == len(fresh.ListDevices()) && len(c.GetErrors()) == len(fresh.GetErrors())
			})
			if !ok {
				t.Errorf("%s: after 3s the auto-refreshed cache has devices %v errors %d, a fresh cache has devices %v errors %d",
					how, c.ListDevices(), len(c.GetErrors()), fresh.ListDevices(), len(fresh.GetErrors()))
			}
		})
	}
}
