package confirm

// Real-library confirmation of finding D1: a same-priority conflict in a
// lower-priority directory un-resolves a device that is uniquely defined in
// a higher-priority directory.

import (
	"os"
	"path/filepath"
	"testing"

	"tags.cncf.io/container-device-interface/pkg/cdi"
)

func TestD1ConflictBelowUniqueDefinition(t *testing.T) {
	root := t.TempDir()
	etc, run := filepath.Join(root, "etc"), filepath.Join(root, "run")
	_ = os.MkdirAll(etc, 0o755)
	_ = os.MkdirAll(run, 0o755)
	spec := func(marker string) []byte {
		return []byte(`{"cdiVersion":"0.6.0","kind":"vendor.com/gpu","devices":[{"name":"dev0","containerEdits":{"env":["M=` + marker + `"]}}]}`)
	}
	_ = os.WriteFile(filepath.Join(etc, "a.json"), spec("etc-a"), 0o644)
	_ = os.WriteFile(filepath.Join(etc, "b.json"), spec("etc-b"), 0o644)
	_ = os.WriteFile(filepath.Join(run, "a.json"), spec("run-a"), 0o644)
	c, _ := cdi.NewCache(cdi.WithSpecDirs(etc, run), cdi.WithAutoRefresh(false))
	d := c.GetDevice("vendor.com/gpu=dev0")
	if d == nil {
		t.Fatalf("vendor.com/gpu=dev0 is uniquely defined in the highest-priority directory but does not resolve; errors: %v", c.GetErrors())
	}
	if got := d.GetSpec().GetPath(); got != filepath.Join(run, "a.json") {
		t.Fatalf("resolved to %s", got)
	}
}
