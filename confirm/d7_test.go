package confirm

// Real-kernel confirmation of finding D7: a configured Spec directory whose
// path cannot be stat'ed for a reason other than "does not exist" (here: a
// path component is a regular file, ENOTDIR) silently ends the whole scan, so
// every later - higher priority - directory disappears from the cache, and
// no error is recorded.

import (
	"os"
	"path/filepath"
	"testing"

	"tags.cncf.io/container-device-interface/pkg/cdi"
)

func TestD7UnscannableDirectoryHidesLaterOnes(t *testing.T) {
	root := t.TempDir()
	blocker := filepath.Join(root, "blocker")
	_ = os.WriteFile(blocker, []byte("a regular file\n"), 0o644)
	bad := filepath.Join(blocker, "cdi") // stat fails with ENOTDIR
	goodDir := filepath.Join(root, "run")
	_ = os.MkdirAll(goodDir, 0o755)
	_ = os.WriteFile(filepath.Join(goodDir, "a.json"), []byte(good), 0o644)

	for _, dirs := range [][]string{{goodDir, bad}, {bad, goodDir}} {
		c, _ := cdi.NewCache(cdi.WithSpecDirs(dirs...), cdi.WithAutoRefresh(false))
		err := c.Refresh()
		if c.GetDevice("vendor.com/gpu=dev0") == nil {
			t.Errorf("dirs %v: the device of the good directory does not resolve (Refresh error: %v, errors: %v)", dirs, err, c.GetErrors())
		}
	}
}
