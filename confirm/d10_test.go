package confirm

// Real-kernel confirmation of finding D10: when a watched Spec directory is
// removed and recreated, the watcher goroutine rescans on the directory's
// Remove event and loads whatever the *new* directory holds, but the new
// directory is not watched until the next query. If it is removed again
// before that, no event arrives, the next query cannot re-add it (it does not
// exist) and therefore does not refresh: the cache keeps serving devices of
// files that no longer exist, indefinitely.

import (
	"os"
	"path/filepath"
	"testing"
	"time"

	"tags.cncf.io/container-device-interface/pkg/cdi"
)

func TestD10StaleAfterRemoveRecreateRemove(t *testing.T) {
	root := t.TempDir()
	dir := filepath.Join(root, "cdi")
	_ = os.MkdirAll(dir, 0o755)
	c, _ := cdi.NewCache(cdi.WithSpecDirs(dir), cdi.WithAutoRefresh(true))
	if len(c.ListDevices()) != 0 {
		t.Fatal("cache not empty")
	}
	// Remove and recreate the directory, with a Spec in the new one. The
	// cache mutex is held meanwhile only to pin the schedule the simulator
	// found (the watcher goroutine is slow to react: it gets the directory's
	// Remove event but rescans after the directory has been recreated); with
	// free-running goroutines the same interleaving needs the watcher to be
	// descheduled for a few microseconds.
	c.Lock()
	_ = os.RemoveAll(dir)
	_ = os.MkdirAll(dir, 0o755)
	_ = os.WriteFile(filepath.Join(dir, "a.json"), []byte(good), 0o644)
	time.Sleep(100 * time.Millisecond)
	c.Unlock()
	// let the watcher goroutine process the events (no queries meanwhile)
	time.Sleep(300 * time.Millisecond)
	// remove it for good
	_ = os.RemoveAll(dir)
	time.Sleep(300 * time.Millisecond)
	ok := waitFor(func() bool { return len(c.ListDevices()) == 0 })
	if !ok {
		t.Errorf("the Spec directory is gone, a fresh cache is empty, but the auto-refreshed cache still lists %v after 3s of polling", c.ListDevices())
	}
}
