package confirm

// Real-library confirmation of finding D6 with the Go race detector
// (go test -race -run TestD6): WriteSpec/RemoveSpec read the directory list
// and GetSpecDirErrors reads the directory-error map without holding the
// cache mutex, racing with Configure.

import (
	"sync"
	"testing"

	"tags.cncf.io/container-device-interface/pkg/cdi"
	specs "tags.cncf.io/container-device-interface/specs-go"
)

func TestD6UnlockedReadsRaceWithConfigure(t *testing.T) {
	d1, d2 := t.TempDir(), t.TempDir()
	c, _ := cdi.NewCache(cdi.WithSpecDirs(d1, d2), cdi.WithAutoRefresh(false))
	spec := &specs.Spec{Version: "0.6.0", Kind: "vendor.com/gpu", Devices: []specs.Device{{Name: "dev0", ContainerEdits: specs.ContainerEdits{Env: []string{"A=1"}}}}}
	var wg sync.WaitGroup
	wg.Add(2)
	go func() {
		defer wg.Done()
		for i := 0; i < 200; i++ {
			_ = c.Configure(cdi.WithSpecDirs(d2, d1))
			_ = c.Configure(cdi.WithSpecDirs(d1, d2))
		}
	}()
	go func() {
		defer wg.Done()
		for i := 0; i < 200; i++ {
			_ = c.WriteSpec(spec, "x")
			_ = c.RemoveSpec("x")
			_ = c.GetSpecDirErrors()
		}
	}()
	wg.Wait()
}
