// Placeholder: the real module file is generated per build by ./check
// (go build -modfile=<scratch>/harness.mod), because it must point at the
// scratch copy of the repository.
module verifharness

go 1.23
