// engine is the simulation worker: it runs one scenario for a number of
// seeded runs (or replays one tape) and writes a JSON report.
package main

import (
	"encoding/json"
	"flag"
	"fmt"
	"os"
	"sort"
	"time"

	"verifharness/core"
	"verifharness/scen"
)

func main() {
	scenario := flag.String("scenario", "", "scenario name")
	prop := flag.String("prop", "", "property id")
	tier := flag.String("tier", "quick", "tier")
	seed := flag.Uint64("seed", 1, "base seed")
	worker := flag.Int("worker", 0, "worker index")
	workers := flag.Int("workers", 1, "number of workers (the systematic sweep, if any, is split over them)")
	dur := flag.Duration("duration", 10*time.Second, "wall-clock budget")
	maxRuns := flag.Int("runs", 0, "maximum number of runs (0 = by duration)")
	shrinkFor := flag.Duration("shrink", 60*time.Second, "budget for minimising one violation")
	out := flag.String("out", "", "report file")
	replay := flag.String("replay", "", "replay file to execute")
	known := flag.String("known", "", "file with known finding signatures, one per line")
	list := flag.Bool("list", false, "list scenarios")
	hashes := flag.Bool("hashes", false, "record the trace hash of every run (determinism self-test)")
	nosweep := flag.Bool("nosweep", false, "skip the systematic sweep")
	flag.Parse()
	if *list {
		var names []string
		for n := range scen.All {
			names = append(names, n)
		}
		sort.Strings(names)
		for _, n := range names {
			fmt.Println(n)
		}
		return
	}
	knownSet := map[string]bool{}
	if *known != "" {
		b, err := os.ReadFile(*known)
		if err == nil {
			var ks []string
			if json.Unmarshal(b, &ks) == nil {
				for _, k := range ks {
					knownSet[k] = true
				}
			}
		}
	}
	if *replay != "" {
		b, err := os.ReadFile(*replay)
		if err != nil {
			fmt.Fprintln(os.Stderr, err)
			os.Exit(2)
		}
		var rp core.Replay
		if err := json.Unmarshal(b, &rp); err != nil {
			fmt.Fprintln(os.Stderr, err)
			os.Exit(2)
		}
		sc, ok := scen.All[rp.Scenario]
		if !ok {
			fmt.Fprintf(os.Stderr, "unknown scenario %q\n", rp.Scenario)
			os.Exit(2)
		}
		text, same, err := core.ReplayFile(sc, *replay, knownSet)
		fmt.Print(text)
		if err != nil {
			fmt.Fprintln(os.Stderr, err)
			os.Exit(2)
		}
		if same {
			fmt.Printf("VIOLATION property=%s replay=%s\n", rp.Property, *replay)
			os.Exit(1)
		}
		fmt.Println("does not reproduce on this tree")
		return
	}
	sc, ok := scen.All[*scenario]
	if !ok {
		fmt.Fprintf(os.Stderr, "unknown scenario %q\n", *scenario)
		os.Exit(2)
	}
	rep := core.Worker(sc, core.WorkerCfg{
		Opts:     core.Opts{Prop: *prop, Scenario: *scenario, Tier: *tier, Known: knownSet},
		Seed:     *seed,
		Worker:   *worker,
		Workers:  *workers,
		Duration: *dur, MaxRuns: *maxRuns, ShrinkFor: *shrinkFor, MaxViol: 3, Hashes: *hashes, NoSweep: *nosweep,
	})
	b, _ := json.MarshalIndent(rep, "", " ")
	if *out != "" {
		if err := os.WriteFile(*out, b, 0o644); err != nil {
			fmt.Fprintln(os.Stderr, err)
			os.Exit(2)
		}
	} else {
		os.Stdout.Write(b)
	}
}
