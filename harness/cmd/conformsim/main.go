// conformsim executes the same list of operations as confirm/conformreal on
// the simulated kernel with the fsnotify stub, and prints the same report.
package main

import (
	"encoding/json"
	"os"
	"sort"
	"strings"
	"syscall"

	"github.com/fsnotify/fsnotify"

	"verif/sim/choice"
	"verif/sim/memfs"
	"verif/sim/sched"
)

type Op struct {
	Kind string `json:"kind"`
	A    string `json:"a"`
	B    string `json:"b"`
	Data string `json:"data"`
}

type Res struct {
	Err    string   `json:"err"`
	Events []string `json:"events"`
}

func name(e syscall.Errno) string { return memfs.ErrnoName(e) }

func main() {
	var ops []Op
	if err := json.NewDecoder(os.Stdin).Decode(&ops); err != nil {
		panic(err)
	}
	w := sched.NewWorld(choice.Replay(nil), sched.Config{})
	p := w.Direct()
	root := "/t"
	rel := func(x string) string { return root + "/" + x }
	p.MkdirAll(rel("D"), 0o755)
	p.MkdirAll(rel("S"), 0o755)
	fw, err := fsnotify.NewWatcher()
	if err != nil {
		panic(err)
	}
	_ = fw.Add(rel("D"))
	collect := func() []string {
		var evs []string
		for {
			// let the reader actor run, then take what it has in hand
			progressed := false
			for fw.Enabled() {
				fw.Step()
				progressed = true
				if ready, _ := w.ChanReady(chanKey(fw.Events)); ready {
					break
				}
			}
			if ready, _ := w.ChanReady(chanKey(fw.Events)); ready && !fw.IsClosed() {
				w.ChanPrepare(chanKey(fw.Events))
				ev := <-fw.Events
				evs = append(evs, ev.Op.String()+" "+strings.TrimPrefix(ev.Name, root+"/"))
				continue
			}
			if !progressed {
				return evs
			}
		}
	}
	var out []Res
	for _, op := range ops {
		var e syscall.Errno
		var ge error
		switch op.Kind {
		case "create":
			var fd int
			fd, e = p.Open(memfs.AT_FDCWD, rel(op.A), memfs.O_WRONLY|memfs.O_CREAT|memfs.O_EXCL, 0o644)
			if e == 0 {
				p.Close(fd)
			}
		case "writefile":
			e = p.WriteFile(rel(op.A), []byte(op.Data), 0o644)
		case "append":
			var fd int
			fd, e = p.Open(memfs.AT_FDCWD, rel(op.A), memfs.O_WRONLY|memfs.O_APPEND, 0)
			if e == 0 {
				_, e = p.Write(fd, []byte(op.Data))
				p.Close(fd)
			}
		case "truncate":
			e = p.Truncate(rel(op.A), 0)
		case "rename":
			e = p.Rename(memfs.AT_FDCWD, rel(op.A), memfs.AT_FDCWD, rel(op.B), 0)
		case "unlink":
			e = p.Unlink(memfs.AT_FDCWD, rel(op.A))
		case "link":
			e = p.Link(rel(op.A), rel(op.B))
		case "symlink":
			e = p.Symlink(op.A, rel(op.B))
		case "chmod":
			e = p.Chmod(rel(op.A), 0o600)
		case "mkdir":
			e = p.Mkdir(rel(op.A), 0o755)
		case "rmdir":
			e = p.Rmdir(rel(op.A))
		case "add":
			ge = fw.Add(rel(op.A))
			if en, ok := ge.(syscall.Errno); ok {
				e = en
			}
		}
		_ = ge
		out = append(out, Res{Err: name(e), Events: collect()})
	}
	var names []string
	for path := range w.FS.Snapshot(root) {
		if path != root {
			names = append(names, strings.TrimPrefix(path, root+"/"))
		}
	}
	sort.Strings(names)
	json.NewEncoder(os.Stdout).Encode(map[string]any{"results": out, "listing": names})
}
