package main

import "verif/sim/simrt"

func chanKey(ch any) any { return simrt.ChanKey(ch) }
