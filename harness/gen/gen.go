// Package gen generates Spec file contents whose validity is known by
// construction, so that oracles never have to re-implement Spec validation.
package gen

import (
	"encoding/json"
	"fmt"
	"sort"
	"strings"

	"sigs.k8s.io/yaml"

	specs "tags.cncf.io/container-device-interface/specs-go"
	"verif/sim/choice"
)

// Meta describes one generated file content.
type Meta struct {
	ID      int
	Rev     int
	DevRev  int // revision the device entries were last changed in (<= Rev): a revision may change the Spec-level part only
	Valid   bool
	Defect  string // for invalid contents
	Vendor  string
	Class   string
	Devices []string // unqualified names
	JSON    bool
	Content []byte
	Spec    *specs.Spec
}

// Marker is the value of the CDI_SIM variable of device dev in this content.
func (m *Meta) Marker(dev string) string { return fmt.Sprintf("f%dr%d.%s", m.ID, m.DevRev, dev) }

// SpecMarker is the value of the Spec-level CDI_SIM_SPEC variable of this content.
func (m *Meta) SpecMarker() string { return fmt.Sprintf("f%dr%d", m.ID, m.Rev) }

// FullMarker identifies the definition of dev in this content: the device
// entry and the Spec it belongs to.
func (m *Meta) FullMarker(dev string) string { return m.Marker(dev) + "@" + m.SpecMarker() }

// Qualified returns the qualified names this content defines.
func (m *Meta) Qualified() []string {
	var out []string
	for _, d := range m.Devices {
		out = append(out, m.Vendor+"/"+m.Class+"="+d)
	}
	sort.Strings(out)
	return out
}

func (m *Meta) String() string {
	if !m.Valid {
		return fmt.Sprintf("invalid(%s)#%d", m.Defect, m.ID)
	}
	enc := "yaml"
	if m.JSON {
		enc = "json"
	}
	if m.DevRev != m.Rev {
		enc += fmt.Sprintf(" (device entries as in r%d)", m.DevRev)
	}
	return fmt.Sprintf("valid#%dr%d %s/%s %v %s", m.ID, m.Rev, m.Vendor, m.Class, m.Devices, enc)
}

// Registry maps contents back to their description.
type Registry struct {
	byContent map[string]*Meta
	nextID    int
}

func NewRegistry() *Registry { return &Registry{byContent: map[string]*Meta{}, nextID: 1} }

// Lookup finds the description of a content.
func (r *Registry) Lookup(content string) *Meta { return r.byContent[content] }

func (r *Registry) add(m *Meta) *Meta {
	r.byContent[string(m.Content)] = m
	return m
}

// Pools are deliberately small so that files collide on device names.
var (
	Vendors  = []string{"vendor.com", "acme.org", "v", "ab", "x-y.z_1"}
	Classes  = []string{"gpu", "c", "net0", "a.b"}
	DevNames = []string{"dev0", "dev1", "d", "0dev", "gpu:0", "x_y-z.1"}
	// Versions a generated Spec may declare (all cover every feature the generator uses).
	versions = []string{"0.6.0", "0.7.0", "0.8.0", "1.0.0"}
)

// Opts narrows generation.
type Opts struct {
	Vendors  []string
	Classes  []string
	DevNames []string
	MaxDevs  int
	Extra    func(src *choice.Source, s *specs.Spec) // add more edits (device nodes ...)
}

func pick(src *choice.Source, xs []string) string { return xs[src.Intn(len(xs))] }

// Valid generates a valid Spec content.  json selects the encoding.
func (r *Registry) Valid(src *choice.Source, asJSON bool, o Opts) *Meta {
	src.Begin("valid-spec")
	defer src.End()
	if o.Vendors == nil {
		o.Vendors = Vendors
	}
	if o.Classes == nil {
		o.Classes = Classes
	}
	if o.DevNames == nil {
		o.DevNames = DevNames
	}
	if o.MaxDevs == 0 {
		o.MaxDevs = 3
	}
	m := &Meta{ID: r.nextID, Rev: 1, DevRev: 1, Valid: true, JSON: asJSON}
	r.nextID++
	m.Vendor = pick(src, o.Vendors)
	m.Class = pick(src, o.Classes)
	n := 1 + src.Intn(o.MaxDevs)
	seen := map[string]bool{}
	for i := 0; i < n; i++ {
		d := pick(src, o.DevNames)
		if seen[d] {
			continue
		}
		seen[d] = true
		m.Devices = append(m.Devices, d)
	}
	r.render(src, m, o)
	return r.add(m)
}

// Revise generates a new revision of a valid content: same kind and devices
// (optionally one more or one fewer device), new markers.
func (r *Registry) Revise(src *choice.Source, old *Meta, o Opts) *Meta {
	src.Begin("revise-spec")
	defer src.End()
	m := &Meta{ID: old.ID, Rev: old.Rev + 1 + src.Intn(1), Valid: true, JSON: old.JSON, Vendor: old.Vendor, Class: old.Class}
	m.Devices = append([]string(nil), old.Devices...)
	// one revision in three changes the Spec-level part only: every device
	// entry stays byte for byte what it was
	specOnly := src.Bool(1, 3)
	devChange := src.Intn(4)
	if specOnly {
		devChange = 0
	}
	switch devChange {
	case 1:
		if len(m.Devices) > 1 {
			m.Devices = m.Devices[:len(m.Devices)-1]
		}
	case 2:
		if o.DevNames == nil {
			o.DevNames = DevNames
		}
		d := pick(src, o.DevNames)
		dup := false
		for _, x := range m.Devices {
			dup = dup || x == d
		}
		if !dup {
			m.Devices = append(m.Devices, d)
		}
	}
	for r.byContentHasRev(m) {
		m.Rev++
	}
	m.DevRev = m.Rev
	if specOnly {
		m.DevRev = old.DevRev
	}
	r.render(src, m, o)
	return r.add(m)
}

func (r *Registry) byContentHasRev(m *Meta) bool {
	for _, x := range r.byContent {
		if x.ID == m.ID && x.Rev == m.Rev {
			return true
		}
	}
	return false
}

func (r *Registry) render(src *choice.Source, m *Meta, o Opts) {
	s := &specs.Spec{Version: pick(src, versions), Kind: m.Vendor + "/" + m.Class}
	s.ContainerEdits.Env = []string{"CDI_SIM_SPEC=" + m.SpecMarker()}
	for _, d := range m.Devices {
		s.Devices = append(s.Devices, specs.Device{Name: d, ContainerEdits: specs.ContainerEdits{Env: []string{"CDI_SIM=" + m.Marker(d)}}})
	}
	if o.Extra != nil {
		o.Extra(src, s)
	}
	m.Spec = s
	m.Content = Encode(s, m.JSON)
}

// Encode renders a Spec as JSON or YAML (the harness's own encoder, not the library's writer).
func Encode(s *specs.Spec, asJSON bool) []byte {
	j, err := json.Marshal(s)
	if err != nil {
		panic(err)
	}
	if asJSON {
		return j
	}
	y, err := yaml.JSONToYAML(j)
	if err != nil {
		panic(err)
	}
	return append([]byte("---\n"), y...)
}

// Defects is the catalogue of unambiguous defects.
var Defects = []string{"empty", "garbage", "truncated", "unknown-field", "missing-kind", "unknown-version", "no-devices", "duplicate-device", "empty-edits", "bad-env", "null-devicenode", "null-hook", "null-mount", "bad-vendor", "wrong-type"}

// Invalid generates an invalid content of the given defect ("" = drawn).
func (r *Registry) Invalid(src *choice.Source, defect string) *Meta {
	src.Begin("invalid-spec")
	defer src.End()
	if defect == "" {
		defect = Defects[src.Intn(len(Defects))]
	}
	m := &Meta{ID: r.nextID, Rev: 1, Valid: false, Defect: defect}
	r.nextID++
	tag := fmt.Sprintf("f%d", m.ID)
	good := fmt.Sprintf(`{"cdiVersion":"0.6.0","kind":"vendor.com/gpu","devices":[{"name":"dev0","containerEdits":{"env":["CDI_SIM=%s.dev0"]}}]}`, tag)
	switch defect {
	case "empty":
		// every empty file has the same content; make the registry key unique per call is impossible,
		// so all empty files share one Meta
		if x := r.byContent[""]; x != nil {
			return x
		}
		m.Content = []byte{}
	case "garbage":
		m.Content = []byte("\x00\xff\xfe garbage " + tag + " {{{")
	case "truncated":
		m.Content = []byte(good[:len(good)/2])
	case "unknown-field":
		m.Content = []byte(strings.Replace(good, `"kind"`, `"bogus":"`+tag+`","kind"`, 1))
	case "missing-kind":
		m.Content = []byte(fmt.Sprintf(`{"cdiVersion":"0.6.0","devices":[{"name":"dev0","containerEdits":{"env":["CDI_SIM=%s.dev0"]}}]}`, tag))
	case "unknown-version":
		m.Content = []byte(strings.Replace(good, "0.6.0", "9.9.9", 1))
	case "no-devices":
		m.Content = []byte(fmt.Sprintf(`{"cdiVersion":"0.6.0","kind":"vendor.com/gpu","devices":[],"containerEdits":{"env":["T=%s"]}}`, tag))
	case "duplicate-device":
		m.Content = []byte(fmt.Sprintf(`{"cdiVersion":"0.6.0","kind":"vendor.com/gpu","devices":[{"name":"dev0","containerEdits":{"env":["A=%s"]}},{"name":"dev0","containerEdits":{"env":["B=1"]}}]}`, tag))
	case "empty-edits":
		m.Content = []byte(fmt.Sprintf(`{"cdiVersion":"0.6.0","kind":"vendor.com/gpu","annotations":{"t":"%s"},"devices":[{"name":"dev0","containerEdits":{}}]}`, tag))
	case "bad-env":
		m.Content = []byte(fmt.Sprintf(`{"cdiVersion":"0.6.0","kind":"vendor.com/gpu","devices":[{"name":"dev0","containerEdits":{"env":["NOASSIGN%s"]}}]}`, tag))
	case "null-devicenode":
		m.Content = []byte(fmt.Sprintf(`{"cdiVersion":"0.6.0","kind":"vendor.com/gpu","devices":[{"name":"dev0","containerEdits":{"env":["A=%s"],"deviceNodes":[null]}}]}`, tag))
	case "null-hook":
		m.Content = []byte(fmt.Sprintf(`{"cdiVersion":"0.6.0","kind":"vendor.com/gpu","devices":[{"name":"dev0","containerEdits":{"env":["A=%s"],"hooks":[null]}}]}`, tag))
	case "null-mount":
		m.Content = []byte(fmt.Sprintf(`{"cdiVersion":"0.6.0","kind":"vendor.com/gpu","devices":[{"name":"dev0","containerEdits":{"env":["A=%s"],"mounts":[null]}}]}`, tag))
	case "bad-vendor":
		m.Content = []byte(strings.Replace(good, "vendor.com/gpu", "-bad-/gpu", 1))
	case "wrong-type":
		m.Content = []byte(fmt.Sprintf(`{"cdiVersion":"0.6.0","kind":"vendor.com/gpu","devices":"%s"}`, tag))
	default:
		panic("unknown defect " + defect)
	}
	return r.add(m)
}

// Register records a content produced elsewhere (e.g. by the library's own
// writer) as a valid Spec defining the given devices.
func (r *Registry) Register(content []byte, like *Meta, asJSON bool) *Meta {
	m := &Meta{ID: like.ID, Rev: like.Rev, DevRev: like.DevRev, Valid: true, Vendor: like.Vendor, Class: like.Class, Devices: like.Devices, JSON: asJSON, Content: content, Spec: like.Spec}
	return r.add(m)
}

// NextID returns the id the next generated content will get.
func (r *Registry) NextID() int { return r.nextID }
