// Package model is the executable reference model of device resolution: a
// few maps computed from the ground truth of the simulated disk.
package model

import (
	"fmt"
	"path/filepath"
	"sort"
	"strings"

	"verif/sim/memfs"
	"verifharness/gen"
)

// File is the ground truth about one Spec-named entry of a configured directory.
type File struct {
	DirIdx int
	Path   string
	State  string // valid, invalid, unreadable, dangling, isdir-link, unknown
	Meta   *gen.Meta
}

// Truth is the ground truth for a directory list.
type Truth struct {
	Dirs     []string
	DirState []string // ok, missing, notdir, enotdir, unreadable, unsearchable, symlink
	Files    []File
}

// Resolved is what a qualified name must resolve to.
type Resolved struct {
	Path   string
	Prio   int
	Marker string
	Meta   *gen.Meta
}

func isSpecName(name string) bool {
	ext := filepath.Ext(name)
	return ext == ".json" || ext == ".yaml"
}

func may(e memfs.Entry, cred memfs.Cred, want uint32) bool {
	if cred.UID == 0 {
		return true
	}
	var bits uint32
	switch {
	case cred.UID == e.UID:
		bits = (e.Mode >> 6) & 7
	case cred.GID == e.GID:
		bits = (e.Mode >> 3) & 7
	default:
		bits = e.Mode & 7
	}
	return bits&want == want
}

// follow resolves symlinks at path (lexically simple: absolute or sibling targets).
func follow(snap map[string]memfs.Entry, path string, depth int) (string, memfs.Entry, bool) {
	e, ok := snap[path]
	if !ok {
		return path, e, false
	}
	if e.Mode&memfs.S_IFMT != memfs.S_IFLNK {
		return path, e, true
	}
	if depth > 40 {
		return path, e, false
	}
	t := e.Target
	if !strings.HasPrefix(t, "/") {
		t = filepath.Join(filepath.Dir(path), t)
	}
	return follow(snap, filepath.Clean(t), depth+1)
}

// Overrides narrow the ground truth for one refresh in which the simulator
// itself made some of the scanner's calls fail.
type Overrides struct {
	DirDown  map[int]bool    // indexes of directories that could not be scanned this time
	FileDown map[string]bool // "<dir index>:<path>" of Spec files whose own lstat/open/read failed this time
}

// Observe computes the ground truth for dirs on the given disk as seen by a
// process with credential cred.
func Observe(fs *memfs.FS, dirs []string, reg *gen.Registry, cred memfs.Cred) *Truth {
	return ObserveWith(fs, dirs, reg, cred, Overrides{})
}

// ObserveWith is Observe with transient-fault overrides.
func ObserveWith(fs *memfs.FS, dirs []string, reg *gen.Registry, cred memfs.Cred, ov Overrides) *Truth {
	snap := fs.Snapshot("/")
	t := &Truth{Dirs: dirs, DirState: make([]string, len(dirs))}
	for i, d := range dirs {
		d = filepath.Clean(d)
		// ancestors
		state := ""
		parts := strings.Split(strings.Trim(d, "/"), "/")
		cur := ""
		for k := 0; k < len(parts)-1; k++ {
			cur += "/" + parts[k]
			rp, e, ok := follow(snap, cur, 0)
			_ = rp
			if !ok {
				state = "missing"
				break
			}
			if e.Mode&memfs.S_IFMT != memfs.S_IFDIR {
				state = "enotdir"
				break
			}
			if !may(e, cred, 1) {
				state = "unsearchable-ancestor"
				break
			}
		}
		if state == "" {
			e, ok := snap[d]
			switch {
			case !ok:
				state = "missing"
			case e.Mode&memfs.S_IFMT == memfs.S_IFLNK:
				state = "symlink"
			case e.Mode&memfs.S_IFMT != memfs.S_IFDIR:
				state = "notdir"
			case !may(e, cred, 4):
				state = "unreadable"
			case !may(e, cred, 1):
				state = "unsearchable"
			default:
				state = "ok"
			}
		}
		if (state == "ok" || state == "missing") && ov.DirDown[i] {
			state = "transient-failure"
		}
		t.DirState[i] = state
		if state != "ok" {
			continue
		}
		var names []string
		prefix := d + "/"
		if d == "/" {
			prefix = "/"
		}
		for p := range snap {
			if strings.HasPrefix(p, prefix) && !strings.Contains(p[len(prefix):], "/") && p != d {
				names = append(names, p)
			}
		}
		sort.Strings(names)
		for _, p := range names {
			e := snap[p]
			if e.Mode&memfs.S_IFMT == memfs.S_IFDIR || !isSpecName(p) {
				continue
			}
			f := File{DirIdx: i, Path: p}
			rp, re, ok := follow(snap, p, 0)
			_ = rp
			switch {
			case !ok:
				f.State = "dangling"
			case re.Mode&memfs.S_IFMT == memfs.S_IFDIR:
				f.State = "isdir-link"
			case re.Mode&memfs.S_IFMT != memfs.S_IFREG:
				f.State = "special"
			case !may(re, cred, 4):
				f.State = "unreadable"
			case ov.FileDown[fmt.Sprintf("%d:%s", i, p)]:
				f.State = "unreadable"
			default:
				m := reg.Lookup(re.Data)
				switch {
				case m == nil:
					f.State = "unknown"
				case m.Valid:
					f.State = "valid"
					f.Meta = m
				default:
					f.State = "invalid"
					f.Meta = m
				}
			}
			t.Files = append(t.Files, f)
		}
	}
	return t
}

// Resolve computes, for every qualified name defined by a valid file, what it
// must resolve to (absent from the map: must not resolve).
func (t *Truth) Resolve() map[string]Resolved {
	type def struct {
		f File
	}
	defs := map[string][]File{}
	for _, f := range t.Files {
		if f.State != "valid" {
			continue
		}
		for _, q := range f.Meta.Qualified() {
			defs[q] = append(defs[q], f)
		}
	}
	out := map[string]Resolved{}
	for q, fs := range defs {
		top := -1
		for _, f := range fs {
			if f.DirIdx > top {
				top = f.DirIdx
			}
		}
		var at []File
		for _, f := range fs {
			if f.DirIdx == top {
				at = append(at, f)
			}
		}
		if len(at) == 1 {
			dev := q[strings.Index(q, "=")+1:]
			out[q] = Resolved{Path: at[0].Path, Prio: top, Marker: at[0].Meta.FullMarker(dev), Meta: at[0].Meta}
		}
	}
	return out
}

// Defined returns every qualified name defined by some valid file.
func (t *Truth) Defined() map[string]bool {
	out := map[string]bool{}
	for _, f := range t.Files {
		if f.State == "valid" {
			for _, q := range f.Meta.Qualified() {
				out[q] = true
			}
		}
	}
	return out
}

// ConflictParticipants returns the paths of valid files that define a device
// also defined by another file of the same directory index.
func (t *Truth) ConflictParticipants() map[string]bool {
	out := map[string]bool{}
	type key struct {
		q   string
		idx int
	}
	by := map[key][]string{}
	for _, f := range t.Files {
		if f.State == "valid" {
			for _, q := range f.Meta.Qualified() {
				k := key{q, f.DirIdx}
				by[k] = append(by[k], f.Path)
			}
		}
	}
	for _, ps := range by {
		if len(ps) > 1 {
			for _, p := range ps {
				out[p] = true
			}
		}
	}
	return out
}

// Vendors returns the sorted set of vendors of valid files.
func (t *Truth) Vendors() []string {
	set := map[string]bool{}
	for _, f := range t.Files {
		if f.State == "valid" {
			set[f.Meta.Vendor] = true
		}
	}
	return keys(set)
}

// Classes returns the sorted set of classes of valid files.
func (t *Truth) Classes() []string {
	set := map[string]bool{}
	for _, f := range t.Files {
		if f.State == "valid" {
			set[f.Meta.Class] = true
		}
	}
	return keys(set)
}

// VendorPaths returns the sorted set of paths of valid files of a vendor.
func (t *Truth) VendorPaths(v string) []string {
	set := map[string]bool{}
	for _, f := range t.Files {
		if f.State == "valid" && f.Meta.Vendor == v {
			set[f.Path] = true
		}
	}
	return keys(set)
}

// Scannable reports whether every configured directory is scannable or absent.
func (t *Truth) AllDirsReadableOrAbsent() bool {
	for _, s := range t.DirState {
		if s != "ok" && s != "missing" {
			return false
		}
	}
	return true
}

// UnscannableDirs returns the configured directories that exist in some form but cannot be scanned.
func (t *Truth) UnscannableDirs() []string {
	var out []string
	for i, s := range t.DirState {
		if s != "ok" && s != "missing" {
			out = append(out, t.Dirs[i])
		}
	}
	return out
}

// VendorSpecs returns the sorted set "path|priority|vendor|class" of the valid
// files of a vendor, one per directory index that holds the file.
func (t *Truth) VendorSpecs(v string) []string {
	set := map[string]bool{}
	for _, f := range t.Files {
		if f.State == "valid" && f.Meta.Vendor == v {
			set[fmt.Sprintf("%s|%d|%s|%s|%s", f.Path, f.DirIdx, f.Meta.Vendor, f.Meta.Class, f.Meta.SpecMarker())] = true
		}
	}
	return keys(set)
}

// MustErr returns the paths of Spec files that must have an error entry.
func (t *Truth) MustErr() map[string]bool {
	out := map[string]bool{}
	for _, f := range t.Files {
		switch f.State {
		case "invalid", "unreadable", "dangling", "isdir-link":
			out[f.Path] = true
		}
	}
	return out
}

// HasUnknown reports whether some Spec-named file has content the registry does not know.
func (t *Truth) HasUnknown() bool {
	for _, f := range t.Files {
		if f.State == "unknown" || f.State == "special" {
			return true
		}
	}
	return false
}

func keys(m map[string]bool) []string {
	out := make([]string, 0, len(m))
	for k := range m {
		out = append(out, k)
	}
	sort.Strings(out)
	return out
}
