package scen

import (
	"encoding/json"
	"fmt"
	"os"
	"sort"
	"strings"

	oci "github.com/opencontainers/runtime-spec/specs-go"
	"golang.org/x/sys/unix"

	"tags.cncf.io/container-device-interface/pkg/cdi"
	specs "tags.cncf.io/container-device-interface/specs-go"
	"verif/sim/choice"
	"verif/sim/memfs"
	"verif/sim/sched"
	"verifharness/core"
	"verifharness/gen"
)

func init() {
	All["c14"] = c14
}

var hostPaths = []string{"/dev/sim0", "/dev/sim1", "/dev/sim2", "/dev/sim3"}

type hostNode struct {
	typ   string // "c", "b", "p", "f" (regular file), "" (absent)
	major uint32
	minor uint32
}

func (h hostNode) String() string {
	switch h.typ {
	case "":
		return "absent"
	case "f":
		return "regular file"
	case "p":
		return "fifo"
	}
	return fmt.Sprintf("%s %d:%d", h.typ, h.major, h.minor)
}

type c14State struct {
	r     *core.Run
	e     *env
	hosts map[string]hostNode
	base  map[string]string // "spec:<path>" / "dev:<qualified>" -> JSON image
	files map[string]*specs.Spec
	names []string                       // qualified device names
	nodes map[string][]*specs.DeviceNode // qualified name -> device nodes that injection of that name applies (spec-level first)
	dirs  []string
}

func (st *c14State) setHost(path string, h hostNode) {
	p := st.e.admin
	p.Unlink(memfs.AT_FDCWD, path)
	switch h.typ {
	case "":
	case "f":
		p.WriteFile(path, []byte("not a device\n"), 0o644)
	case "p":
		p.Mknod(path, memfs.S_IFIFO|0o600, 0)
	case "c":
		p.Mknod(path, memfs.S_IFCHR|0o600, unix.Mkdev(h.major, h.minor))
	case "b":
		p.Mknod(path, memfs.S_IFBLK|0o600, unix.Mkdev(h.major, h.minor))
	}
	st.hosts[path] = h
}

func drawHost(r *core.Run, allowBad bool) hostNode {
	src := r.Src
	k := src.Pick(4, 3, 1, 1, 1)
	if !allowBad && k >= 3 {
		k = 0
	}
	switch k {
	case 0:
		return hostNode{typ: "c", major: uint32(1 + src.Intn(250)), minor: uint32(src.Intn(64))}
	case 1:
		return hostNode{typ: "b", major: uint32(1 + src.Intn(250)), minor: uint32(src.Intn(64))}
	case 2:
		return hostNode{typ: "p"}
	case 3:
		return hostNode{typ: "f"}
	}
	return hostNode{}
}

// drawNode draws a device node edit in one of the specification states.
func (st *c14State) drawNode(i int, lowVersion bool) *specs.DeviceNode {
	src := st.r.Src
	host := hostPaths[src.Intn(len(hostPaths))]
	h := st.hosts[host]
	dn := &specs.DeviceNode{Path: host}
	state := src.Intn(7)
	if lowVersion && state == 3 {
		state = 0 // hostPath needs cdiVersion 0.5.0
	}
	switch state {
	case 0: // path only
	case 1: // path + type, numbers from the host
		if h.typ == "c" || h.typ == "b" || h.typ == "p" {
			dn.Type = h.typ
		}
	case 2: // fully specified
		dn.Type = []string{"c", "b"}[src.Intn(2)]
		dn.Major = int64(1 + src.Intn(200))
		dn.Minor = int64(src.Intn(32))
	case 3: // container path differs from host path
		dn.Path = messy(src, fmt.Sprintf("/dev/container%d", i))
		dn.HostPath = host
	case 4: // permissions
		dn.Permissions = []string{"r", "rw", "rwm"}[src.Intn(3)]
	case 6: // numbers given, type left to the host: the numbers must be kept
		dn.Major = int64(1 + src.Intn(200))
		dn.Minor = int64(src.Intn(32))
	case 5: // uid/gid/fileMode
		u := uint32(1000 + src.Intn(3))
		dn.UID = &u
		if src.Bool(1, 2) {
			g := uint32(2000 + src.Intn(3))
			dn.GID = &g
		}
		if src.Bool(1, 2) {
			// permission bits only, or a mode as os.Stat reports it (type bits, setuid, sticky)
			fm := []os.FileMode{0o600, 0o660, 0o666, os.ModeDevice | os.ModeCharDevice | 0o666, os.ModeSetuid | 0o755, os.ModeSticky | 0o777}[src.Intn(6)]
			dn.FileMode = &fm
		}
	}
	return dn
}

func (st *c14State) images() map[string]string {
	out := map[string]string{}
	c := st.e.cache
	for _, v := range c.ListVendors() {
		for _, s := range c.GetVendorSpecs(v) {
			b, _ := json.Marshal(s.Spec)
			out["spec:"+s.GetPath()] = string(b)
		}
	}
	for _, n := range st.names {
		if d := c.GetDevice(n); d != nil {
			b, _ := json.Marshal(d.Device)
			out["dev:"+n] = string(b)
		} else {
			out["dev:"+n] = "<nil>"
		}
	}
	return out
}

func (st *c14State) checkUnchanged(after string) {
	var now map[string]string
	st.e.do("images", func() { now = st.images() })
	keys := map[string]bool{}
	for k := range now {
		keys[k] = true
	}
	for k := range st.base {
		keys[k] = true
	}
	for _, k := range sortedKeys(keys) {
		if now[k] != st.base[k] {
			kind := "cached-spec-changed"
			if strings.HasPrefix(k, "dev:") {
				kind = "cached-device-changed"
			}
			st.r.Failf("cache-mutated", kind, "after %s the cached %s differs from what the query API returned before:\n before: %s\n after:  %s", after, k, st.base[k], now[k])
		}
	}
}

func baseOCI(src interface{ Intn(int) int }) *oci.Spec {
	s := &oci.Spec{Version: "1.0.2", Process: &oci.Process{Env: []string{"PATH=/bin"}}}
	switch src.Intn(3) {
	case 1:
		s.Linux = &oci.Linux{}
	case 2:
		s.Linux = &oci.Linux{Devices: []oci.LinuxDevice{{Path: "/dev/preexisting", Type: "c", Major: 1, Minor: 3}}}
		s.Process.User.UID = 1001
	}
	// supplementary groups the runtime set already, from the value space the Specs use
	for k, n := 0, src.Intn(3); k < n; k++ {
		s.Process.User.AdditionalGids = append(s.Process.User.AdditionalGids, uint32(src.Intn(4))*1000+uint32(src.Intn(3)))
	}
	return s
}

// messy returns, one time in four, a valid but non-canonical spelling of an
// absolute path (trailing slash, doubled slash, "/./", "/x/../"): code that
// normalises a path must do so on its own copy, not on the cached Spec.
func messy(src interface {
	Intn(int) int
	Bool(int, int) bool
}, p string) string {
	if !src.Bool(1, 4) {
		return p
	}
	i := strings.LastIndex(p, "/")
	switch src.Intn(4) {
	case 0:
		return p + "/"
	case 1:
		return "/" + p
	case 2:
		return p[:i] + "/." + p[i:]
	}
	return p[:i] + "/x/.." + p[i:]
}

// richHook / richMount fill in the optional fields (slices and pointers that
// an Apply could share with, or change inside, the cached Spec).
func richHook(src *choice.Source, h *specs.Hook, tag string) *specs.Hook {
	for k, n := 0, src.Intn(4); k < n; k++ {
		h.Args = append(h.Args, fmt.Sprintf("--%s-arg%d", tag, k))
	}
	for k, n := 0, src.Intn(3); k < n; k++ {
		h.Env = append(h.Env, fmt.Sprintf("HOOK_%d=%s", k, tag))
	}
	if src.Bool(1, 3) {
		t := 1 + src.Intn(30)
		h.Timeout = &t
	}
	return h
}

func richMount(src *choice.Source, m *specs.Mount, typed bool) *specs.Mount {
	opts := []string{"ro", "nosuid", "nodev", "bind", "rprivate"}
	for k, n := 0, src.Intn(4); k < n; k++ {
		m.Options = append(m.Options, opts[src.Intn(len(opts))])
	}
	if typed && src.Bool(1, 3) {
		m.Type = []string{"bind", "tmpfs"}[src.Intn(2)]
	}
	return m
}

// richEdits adds the v0.7.0 edits (additional GIDs, Intel RDT).
func richEdits(src *choice.Source, e *specs.ContainerEdits, tag string) {
	if src.Bool(1, 3) {
		for k, n := 0, 1+src.Intn(3); k < n; k++ {
			e.AdditionalGIDs = append(e.AdditionalGIDs, uint32(src.Intn(4))*1000+uint32(k)) // 0 (ignored) included
		}
	}
	if src.Bool(1, 4) {
		e.IntelRdt = &specs.IntelRdt{ClosID: "clos-" + tag, L3CacheSchema: "L3:0=ff", EnableCMT: src.Bool(1, 2)}
	}
}

func cloneOCI(s *oci.Spec) *oci.Spec {
	b, _ := json.Marshal(s)
	var out oci.Spec
	_ = json.Unmarshal(b, &out)
	return &out
}

// expectNode computes, from the simulated disk, what the injected OCI device must look like
// in the attributes the Spec leaves to the host.  ok=false: the injection must fail.
func (st *c14State) expectNode(dn *specs.DeviceNode) (typ string, major, minor int64, needHost bool, ok bool) {
	host := dn.HostPath
	if host == "" {
		host = dn.Path
	}
	if dn.Type != "" && (dn.Major != 0 || dn.Type == "p") {
		return dn.Type, dn.Major, dn.Minor, false, true
	}
	h := st.hosts[host]
	if h.typ != "c" && h.typ != "b" && h.typ != "p" {
		return "", 0, 0, true, false
	}
	typ = dn.Type
	if typ == "" {
		typ = h.typ
	} else if typ != h.typ {
		return "", 0, 0, true, false
	}
	major, minor = dn.Major, dn.Minor
	if dn.Major == 0 && typ != "p" {
		major, minor = int64(h.major), int64(h.minor)
	}
	return typ, major, minor, true, true
}

func c14(r *core.Run) {
	src := r.Src
	drawMapOrder(r)
	e := newEnv(r, sched.Config{SwitchDen: 4}, memfs.Cred{})
	st := &c14State{r: r, e: e, hosts: map[string]hostNode{}, files: map[string]*specs.Spec{}, nodes: map[string][]*specs.DeviceNode{}}
	st.dirs = []string{"/etc/cdi", "/run/cdi"}
	e.admin.MkdirAll("/dev", 0o755)
	for _, d := range st.dirs {
		e.admin.MkdirAll(d, 0o755)
	}
	src.Begin("hosts")
	for _, hp := range hostPaths {
		st.setHost(hp, drawHost(r, src.Bool(1, 6)))
	}
	src.End()
	var hostDesc []string
	for _, hp := range hostPaths {
		hostDesc = append(hostDesc, hp+"="+st.hosts[hp].String())
	}
	r.Notef("host nodes: %s", strings.Join(hostDesc, " "))
	// scale: one run in twenty has Specs with 30-70 devices and requests of 20-80 names
	big := src.Bool(1, 20)
	if big {
		r.Knob("big_specs_and_requests", true)
		r.Probe("big_specs_and_requests")
	}
	// Spec files with device nodes at device level and sometimes at Spec level
	src.Begin("specs")
	nf := 1 + src.Intn(3)
	for i := 0; i < nf; i++ {
		low := src.Bool(1, 3)
		version := []string{"0.6.0", "0.7.0", "1.0.0"}[src.Intn(3)]
		if low {
			version = []string{"0.3.0", "0.4.0"}[src.Intn(2)]
		}
		vendor := []string{"vendor.com", "acme.org", "other.io"}[i]
		s := &specs.Spec{Version: version, Kind: vendor + "/gpu"}
		if src.Bool(1, 3) {
			s.ContainerEdits.DeviceNodes = append(s.ContainerEdits.DeviceNodes, st.drawNode(90+i, low))
		}
		// Spec-level lists of every length 0-7: after decoding, slices of 3, 5, 6 or 7
		// entries have spare capacity, which is where append() aliasing shows
		for k, n := 0, src.Intn(8); k < n; k++ {
			s.ContainerEdits.Env = append(s.ContainerEdits.Env, fmt.Sprintf("SPEC%d_%d=f%d", i, k, i))
		}
		for k, n := 0, src.Intn(4); k < n; k++ {
			s.ContainerEdits.Mounts = append(s.ContainerEdits.Mounts, richMount(src, &specs.Mount{HostPath: messy(src, fmt.Sprintf("/host/s%d_%d", i, k)), ContainerPath: messy(src, fmt.Sprintf("/ctr/s%d_%d%s", i, k, []string{"", "/a", "/a/b", "/a/b/c"}[src.Intn(4)]))}, version != "0.3.0"))
		}
		for k, n := 0, src.Intn(4); k < n; k++ {
			s.ContainerEdits.Hooks = append(s.ContainerEdits.Hooks, richHook(src, &specs.Hook{HookName: "prestart", Path: messy(src, fmt.Sprintf("/bin/hook-s%d-%d", i, k))}, fmt.Sprintf("s%d-%d", i, k)))
		}
		rich := version == "0.7.0" || version == "1.0.0"
		if rich {
			richEdits(src, &s.ContainerEdits, fmt.Sprintf("s%d", i))
		}
		if !low && src.Bool(1, 3) {
			s.Annotations = map[string]string{"vendor.example/spec": fmt.Sprintf("f%d", i)}
		}
		nd := 1 + src.Intn(3)
		if big {
			nd = 30 + src.Intn(41)
		}
		for j := 0; j < nd; j++ {
			d := specs.Device{Name: fmt.Sprintf("dev%d", j)}
			d.ContainerEdits.Env = []string{fmt.Sprintf("CDI_SIM=f%d.dev%d", i, j)}
			for k, n := 0, src.Intn(3); k < n; k++ {
				d.ContainerEdits.Env = append(d.ContainerEdits.Env, fmt.Sprintf("DEV%d_%d_%d=1", i, j, k))
			}
			if src.Bool(1, 3) {
				d.ContainerEdits.Hooks = append(d.ContainerEdits.Hooks, richHook(src, &specs.Hook{HookName: "poststop", Path: messy(src, fmt.Sprintf("/bin/hook-d%d-%d", i, j))}, fmt.Sprintf("d%d-%d", i, j)))
			}
			for k, n := 0, []int{0, 0, 1, 1, 2, 3}[src.Intn(6)]; k < n; k++ {
				// destinations of different depths, deeper ones sometimes listed first
				deep := []string{"", "/a", "/a/b", "/a/b/c"}[src.Intn(4)]
				d.ContainerEdits.Mounts = append(d.ContainerEdits.Mounts, richMount(src, &specs.Mount{HostPath: messy(src, fmt.Sprintf("/host/d%d_%d_%d", i, j, k)), ContainerPath: messy(src, fmt.Sprintf("/ctr/d%d_%d_%d%s", i, j, k, deep))}, version != "0.3.0"))
			}
			if rich {
				richEdits(src, &d.ContainerEdits, fmt.Sprintf("d%d-%d", i, j))
			}
			if !low && src.Bool(1, 4) {
				d.Annotations = map[string]string{"vendor.example/device": fmt.Sprintf("f%d.dev%d", i, j)}
			}
			nn := src.Intn(3)
			for k := 0; k < nn; k++ {
				d.ContainerEdits.DeviceNodes = append(d.ContainerEdits.DeviceNodes, st.drawNode(i*10+j*3+k, low))
			}
			s.Devices = append(s.Devices, d)
		}
		dir := st.dirs[src.Intn(2)]
		asJSON := src.Bool(1, 2)
		path := fmt.Sprintf("%s/%s-gpu%s", dir, vendor, map[bool]string{true: ".json", false: ".yaml"}[asJSON])
		e.admin.WriteFile(path, gen.Encode(s, asJSON), 0o644)
		st.files[path] = s
		for j := range s.Devices {
			q := s.Kind + "=" + s.Devices[j].Name
			st.names = append(st.names, q)
			st.nodes[q] = append(append([]*specs.DeviceNode(nil), s.ContainerEdits.DeviceNodes...), s.Devices[j].ContainerEdits.DeviceNodes...)
		}
		b, _ := json.Marshal(s)
		r.Notef("%s = %s", path, b)
	}
	src.End()
	sort.Strings(st.names)
	e.do("NewCache", func() {
		c, _ := cdi.NewCache(cdi.WithSpecDirs(st.dirs...), cdi.WithAutoRefresh(false))
		e.cache = c
	})
	e.do("baseline", func() { st.base = st.images() })
	for k, v := range st.base {
		if v == "<nil>" {
			r.Failf("setup", "device-unresolved", "%s does not resolve in the generated population", k)
		}
	}
	hostGen := 0
	type injRec struct {
		req     string
		ociIn   string
		hostGen int
		result  string
	}
	var history []injRec
	var containers []*oci.Spec // OCI specs that received an injection (and stay in use)
	steps := 2 + src.Intn(7)
	if r.Tier == "thorough" && src.Bool(1, 3) {
		steps = 8 + src.Intn(25)
	}
	copies := 0
	for s := 0; s < steps; s++ {
		src.Begin("step")
		what := ""
		switch src.Pick(5, 2, 1, 3, 2, 1, 2) {
		case 0: // InjectDevices
			k := 1 + src.Intn(3)
			if big && src.Bool(1, 2) {
				k = 20 + src.Intn(61)
			}
			var req []string
			for i := 0; i < k; i++ {
				req = append(req, st.names[src.Intn(len(st.names))])
			}
			// repeat an earlier request half of the time (repeatability)
			var in *oci.Spec
			if len(history) > 0 && src.Bool(1, 2) {
				h := history[src.Intn(len(history))]
				req = strings.Split(h.req, ",")
				in = &oci.Spec{}
				_ = json.Unmarshal([]byte(h.ociIn), in)
			} else {
				in = baseOCI(src)
			}
			inImg, _ := json.Marshal(in)
			work := cloneOCI(in)
			var unresolved []string
			var err error
			e.do("InjectDevices", func() { unresolved, err = e.cache.InjectDevices(work, req...) })
			what = fmt.Sprintf("InjectDevices(%v)", req)
			r.Notef("%s -> unresolved %v err %v", what, unresolved, err)
			if len(unresolved) > 0 {
				r.Failf("inject", "unresolved", "%s: devices %v do not resolve", what, unresolved)
			}
			// expectation from the current host nodes
			mustFail := false
			type want struct {
				path         string
				typ          string
				major, minor int64
			}
			var wants []want
			seenSpec := map[string]bool{}
			for _, q := range req {
				nodes := st.nodes[q]
				specKey := q[:strings.Index(q, "=")]
				var sl int
				for path, sp := range st.files {
					if sp.Kind == specKey {
						_ = path
						sl = len(sp.ContainerEdits.DeviceNodes)
					}
				}
				for i, dn := range nodes {
					if i < sl && seenSpec[specKey] {
						continue // Spec-level edits are applied once per Spec
					}
					typ, ma, mi, _, ok := st.expectNode(dn)
					if !ok {
						mustFail = true
						continue
					}
					wants = append(wants, want{dn.Path, typ, ma, mi})
				}
				seenSpec[specKey] = true
			}
			if mustFail {
				if err == nil {
					r.Failf("inject", "no-error-for-missing-host-node", "%s succeeded although a host node it must stat is absent, not a device, or of another type (hosts: %v)", what, st.hosts)
				}
			} else {
				if err != nil {
					r.Failf("inject", "error-with-good-host-nodes", "%s failed: %v (hosts: %v)", what, err, st.hosts)
				}
				// the last edit for a container path wins
				final := map[string]want{}
				for _, w := range wants {
					final[w.path] = w
				}
				got := map[string]oci.LinuxDevice{}
				if work.Linux != nil {
					for _, d := range work.Linux.Devices {
						got[d.Path] = d
					}
				}
				for p, w := range final {
					g, ok := got[p]
					if !ok {
						r.Failf("inject", "device-missing-in-oci", "%s: the OCI spec has no device %s", what, p)
					}
					if g.Type != w.typ || g.Major != w.major || g.Minor != w.minor {
						r.Failf("inject", "stale-host-attributes", "%s: OCI device %s is %s %d:%d; the Spec leaves these to the host node, which is currently %s %d:%d", what, p, g.Type, g.Major, g.Minor, w.typ, w.major, w.minor)
					}
				}
				res, _ := json.Marshal(work)
				for _, h := range history {
					if h.req == strings.Join(req, ",") && h.ociIn == string(inImg) && h.hostGen == hostGen && h.result != string(res) {
						r.Failf("inject", "not-repeatable", "%s into equal OCI specs gave different results with no host change in between:\n first:  %s\n second: %s", what, h.result, res)
					}
				}
				history = append(history, injRec{strings.Join(req, ","), string(inImg), hostGen, string(res)})
				containers = append(containers, work)
			}
		case 1: // Device.ApplyEdits
			q := st.names[src.Intn(len(st.names))]
			work := baseOCI(src)
			if len(containers) > 0 && src.Bool(1, 3) {
				work = containers[src.Intn(len(containers))] // a container spec that is already in use
			}
			var err error
			e.do("Device.ApplyEdits", func() {
				if d := e.cache.GetDevice(q); d != nil {
					err = d.ApplyEdits(work)
				}
			})
			what = fmt.Sprintf("GetDevice(%s).ApplyEdits", q)
			r.Notef("%s -> %v", what, err)
			if err == nil {
				containers = append(containers, work)
			}
		case 2: // Spec.ApplyEdits
			q := st.names[src.Intn(len(st.names))]
			work := baseOCI(src)
			if len(containers) > 0 && src.Bool(1, 3) {
				work = containers[src.Intn(len(containers))] // a container spec that is already in use
			}
			var err error
			e.do("Spec.ApplyEdits", func() {
				if d := e.cache.GetDevice(q); d != nil {
					err = d.GetSpec().ApplyEdits(work)
				}
			})
			what = fmt.Sprintf("GetDevice(%s).GetSpec().ApplyEdits", q)
			r.Notef("%s -> %v", what, err)
			if err == nil {
				containers = append(containers, work)
			}
		case 3: // host change
			hp := hostPaths[src.Intn(len(hostPaths))]
			h := drawHost(r, true)
			st.setHost(hp, h)
			hostGen++
			what = fmt.Sprintf("host change %s := %s", hp, h)
			r.Notef("%s", what)
		case 4: // write a cached Spec back under another name, read it back, remove it
			q := st.names[src.Intn(len(st.names))]
			copies++
			name := fmt.Sprintf("copy-%d%s", copies, []string{"", ".json", ".yaml"}[src.Intn(3)])
			var werr error
			var origPath string
			e.do("WriteSpec(cached)", func() {
				if d := e.cache.GetDevice(q); d != nil {
					origPath = d.GetSpec().GetPath()
					werr = e.cache.WriteSpec(d.GetSpec().Spec, name)
				}
			})
			what = fmt.Sprintf("WriteSpec(cached Spec of %s, %q)", q, name)
			r.Notef("%s -> %v", what, werr)
			if werr != nil {
				r.Failf("write-back", "cached-spec-not-writable", "%s failed: %v; the Spec was loaded from %s and must still be writable unchanged", what, werr, origPath)
			}
			tp := expectedPath("/run/cdi", name)
			ent, ok := e.w.FS.Lookup(tp)
			if !ok {
				r.Failf("write-back", "no-file", "%s returned nil but %s does not exist", what, tp)
			}
			raw, perr := cdi.ParseSpec([]byte(ent.Data))
			if perr != nil || raw == nil {
				r.Failf("write-back", "unreadable", "%s wrote %s which does not parse: %v", what, tp, perr)
			}
			gotImg, _ := json.Marshal(raw)
			if string(gotImg) != st.base["spec:"+origPath] {
				r.Failf("write-back", "written-differs-from-loaded", "%s wrote a document that differs from the one loaded from %s:\n loaded:  %s\n written: %s", what, origPath, st.base["spec:"+origPath], gotImg)
			}
			e.admin.Unlink(memfs.AT_FDCWD, tp)
		case 6: // one more injection into a container spec that already received one
			if len(containers) == 0 {
				break
			}
			work := containers[src.Intn(len(containers))]
			var req []string
			for i, k := 0, 1+src.Intn(2); i < k; i++ {
				req = append(req, st.names[src.Intn(len(st.names))])
			}
			var err error
			e.do("InjectDevices-more", func() { _, err = e.cache.InjectDevices(work, req...) })
			what = fmt.Sprintf("InjectDevices(%v) into an OCI spec that already holds injected devices", req)
			r.Notef("%s -> err %v", what, err)
		case 5: // Refresh with no change of the Spec directories
			var err error
			e.do("Refresh", func() { err = e.cache.Refresh() })
			what = "Refresh()"
			r.Notef("Refresh() -> %v", err)
		}
		st.checkUnchanged(what)
		src.End()
	}
	r.State(fmt.Sprintf("%d files %d names %d hostgen", len(st.files), len(st.names), hostGen))
}
