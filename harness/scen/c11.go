package scen

import (
	"encoding/json"
	"errors"
	"fmt"
	"os"
	"path/filepath"
	"sort"
	"strings"
	"syscall"

	oci "github.com/opencontainers/runtime-spec/specs-go"

	"tags.cncf.io/container-device-interface/pkg/cdi"
	"verif/sim/memfs"
	"verif/sim/sched"
	"verif/sim/simos"
	"verifharness/core"
	"verifharness/gen"
	"verifharness/model"
)

func init() {
	All["c11"] = func(r *core.Run) { converge(r, false) }
}

// mutOp is one file-system operation of a history, executed by a mutator task
// through the simulated os API: every system call of it is a scheduler step.
type mutOp struct {
	desc string
	run  func()
}

type cv struct {
	*env
	dirs   []string
	mut    *sched.Proc
	nextID int
	opts   gen.Opts // name space of the generated Specs (narrow in a third of the runs)
}

// planned content of the disk as the generator sees it while it draws the
// history (the real disk changes only when the mutators run).
type plan struct {
	files map[string]bool // Spec-directory entries believed to exist
	dirs  map[string]bool // configured directories believed to exist
}

func (c *cv) content(name string) *gen.Meta {
	src := c.r.Src
	if src.Bool(1, 5) {
		return c.reg.Invalid(src, "")
	}
	return c.reg.Valid(src, strings.HasSuffix(name, ".json"), c.opts)
}

func pickKey(src interface{ Intn(int) int }, m map[string]bool) string {
	ks := sortedKeys(m)
	if len(ks) == 0 {
		return ""
	}
	return ks[src.Intn(len(ks))]
}

// writeChunks writes content to an open file in 1-3 write calls.
func writeChunks(f *simos.File, data []byte, cuts []int) {
	prev := 0
	for _, c := range cuts {
		if c > prev && c < len(data) {
			f.Write(data[prev:c])
			prev = c
		}
	}
	if prev < len(data) {
		f.Write(data[prev:])
	}
}

// genOp draws one operation of the kinds the property lists.
func (c *cv) genOp(pl *plan) mutOp {
	src := c.r.Src
	src.Begin("fsop")
	defer src.End()
	existingDirs := map[string]bool{}
	missingDirs := map[string]bool{}
	for _, d := range c.dirs {
		if pl.dirs[d] {
			existingDirs[d] = true
		} else {
			missingDirs[d] = true
		}
	}
	cutsFor := func(n int) []int {
		k := src.Intn(3)
		var cuts []int
		for i := 0; i < k && n > 2; i++ {
			cuts = append(cuts, 1+src.Intn(n-1))
		}
		sort.Ints(cuts)
		return cuts
	}
	for try := 0; try < 6; try++ {
		switch src.Pick(4, 3, 3, 3, 2, 1, 3, 3, 2, 2, 1, 2) {
		case 0: // create + write in place
			d := pickKey(src, existingDirs)
			if d == "" {
				continue
			}
			name := specNames[src.Intn(len(specNames))]
			if src.Bool(1, 8) {
				name = otherNames[src.Intn(len(otherNames))]
			}
			m := c.content(name)
			p := d + "/" + name
			cuts := cutsFor(len(m.Content))
			pl.files[p] = true
			return mutOp{fmt.Sprintf("create %s (%d writes) = %s", p, len(cuts)+1, m), func() {
				f := openNoFollow(p, simos.O_WRONLY|simos.O_CREATE|simos.O_TRUNC)
				if f == nil {
					return
				}
				writeChunks(f, m.Content, cuts)
				f.Close()
			}}
		case 1: // rewrite in place (O_TRUNC, then writes)
			p := pickKey(src, pl.files)
			if p == "" {
				continue
			}
			m := c.content(p)
			cuts := cutsFor(len(m.Content))
			return mutOp{fmt.Sprintf("rewrite %s (%d writes) = %s", p, len(cuts)+1, m), func() {
				if unlinkIfSymlink(p) {
					return // (a write through the link would change a file outside the watched directory)
				}
				f, err := simos.OpenFile(p, simos.O_WRONLY|simos.O_TRUNC|syscall.O_NOFOLLOW, 0o644)
				if err != nil {
					return
				}
				writeChunks(f, m.Content, cuts)
				f.Close()
			}}
		case 2: // replace by temp + rename inside the directory
			d := pickKey(src, existingDirs)
			if d == "" {
				continue
			}
			name := specNames[src.Intn(len(specNames))]
			m := c.content(name)
			p := d + "/" + name
			c.nextID++
			tmp := fmt.Sprintf("%s/.new%d.tmp", d, c.nextID)
			pl.files[p] = true
			return mutOp{fmt.Sprintf("replace %s by temp+rename = %s", p, m), func() {
				if simos.WriteFile(tmp, m.Content, 0o600) != nil {
					simos.Remove(tmp)
					return
				}
				if simos.Rename(tmp, p) != nil {
					simos.Remove(tmp)
				}
			}}
		case 3: // move in from the staging directory
			d := pickKey(src, existingDirs)
			if d == "" {
				continue
			}
			name := specNames[src.Intn(len(specNames))]
			m := c.content(name)
			p := d + "/" + name
			c.nextID++
			st := fmt.Sprintf("/staging/in%d", c.nextID)
			pl.files[p] = true
			return mutOp{fmt.Sprintf("move in %s = %s", p, m), func() {
				if simos.WriteFile(st, m.Content, 0o644) != nil {
					return
				}
				if simos.Rename(st, p) != nil {
					simos.Remove(st)
				}
			}}
		case 4: // hard-link in
			d := pickKey(src, existingDirs)
			if d == "" {
				continue
			}
			name := specNames[src.Intn(len(specNames))]
			m := c.content(name)
			p := d + "/" + name
			c.nextID++
			st := fmt.Sprintf("/staging/ln%d", c.nextID)
			pl.files[p] = true
			return mutOp{fmt.Sprintf("hard-link in %s = %s", p, m), func() {
				if simos.WriteFile(st, m.Content, 0o644) != nil {
					return
				}
				simos.Remove(p)
				simos.Link(st, p)
			}}
		case 5: // create empty
			d := pickKey(src, existingDirs)
			if d == "" {
				continue
			}
			name := specNames[src.Intn(len(specNames))]
			p := d + "/" + name
			c.reg.Invalid(src, "empty")
			pl.files[p] = true
			return mutOp{fmt.Sprintf("create empty %s", p), func() {
				if f, err := simos.OpenFile(p, simos.O_WRONLY|simos.O_CREATE|simos.O_EXCL, 0o644); err == nil {
					f.Close()
				}
			}}
		case 6: // rename away: to staging, to a non-Spec name, to another Spec name
			p := pickKey(src, pl.files)
			if p == "" {
				continue
			}
			var to string
			switch src.Intn(3) {
			case 0:
				c.nextID++
				to = fmt.Sprintf("/staging/out%d", c.nextID)
			case 1:
				to = filepath.Dir(p) + "/" + otherNames[src.Intn(len(otherNames))]
			default:
				to = filepath.Dir(p) + "/" + specNames[src.Intn(len(specNames))]
			}
			delete(pl.files, p)
			if filepath.Dir(to) != "/staging" {
				pl.files[to] = true
			}
			return mutOp{fmt.Sprintf("rename %s -> %s", p, to), func() { simos.Rename(p, to) }}
		case 7: // remove
			p := pickKey(src, pl.files)
			if p == "" {
				continue
			}
			delete(pl.files, p)
			return mutOp{fmt.Sprintf("remove %s", p), func() { simos.Remove(p) }}
		case 8: // create a missing configured directory, then populate it
			d := pickKey(src, missingDirs)
			if d == "" {
				continue
			}
			name := specNames[src.Intn(len(specNames))]
			m := c.content(name)
			populate := src.Bool(2, 3)
			pl.dirs[d] = true
			if populate {
				pl.files[d+"/"+name] = true
			}
			return mutOp{fmt.Sprintf("mkdir -p %s (populate=%v %s = %s)", d, populate, name, m), func() {
				if simos.MkdirAll(d, 0o755) != nil {
					return
				}
				if populate {
					writeNoFollow(d+"/"+name, m.Content)
				}
			}}
		case 11: // a Spec that appears as a symbolic link (to a file kept elsewhere, or dangling)
			d := pickKey(src, existingDirs)
			if d == "" {
				continue
			}
			name := specNames[src.Intn(len(specNames))]
			p := d + "/" + name
			c.nextID++
			target := fmt.Sprintf("/staging/target%d", c.nextID)
			dangling := src.Bool(1, 3)
			m := c.content(name)
			pl.files[p] = true
			desc := fmt.Sprintf("symlink %s -> %s = %s", p, target, m)
			if dangling {
				desc = fmt.Sprintf("symlink %s -> %s (dangling)", p, target)
			}
			return mutOp{desc, func() {
				if !dangling {
					simos.WriteFile(target, m.Content, 0o644)
				}
				simos.Remove(p)
				simos.Symlink(target, p)
			}}
		case 9: // remove a directory tree
			d := pickKey(src, existingDirs)
			if d == "" {
				continue
			}
			pl.dirs[d] = false
			for f := range pl.files {
				if filepath.Dir(f) == d {
					delete(pl.files, f)
				}
			}
			return mutOp{fmt.Sprintf("rm -r %s", d), func() { simos.RemoveAll(d) }}
		case 10: // remove and recreate a directory tree in one go
			d := pickKey(src, existingDirs)
			if d == "" {
				continue
			}
			name := specNames[src.Intn(len(specNames))]
			m := c.content(name)
			for f := range pl.files {
				if filepath.Dir(f) == d {
					delete(pl.files, f)
				}
			}
			pl.files[d+"/"+name] = true
			return mutOp{fmt.Sprintf("rm -r %s; mkdir %s; write %s = %s", d, d, name, m), func() {
				simos.RemoveAll(d)
				if simos.MkdirAll(d, 0o755) == nil {
					writeNoFollow(d+"/"+name, m.Content)
				}
			}}
		}
	}
	return mutOp{"no-op", func() {}}
}

// unlinkIfSymlink removes p if it is a symbolic link: writing "in place" through
// a link changes a file that lives outside the watched directory, which raises
// no event there and is not among the changes the property lists.
func unlinkIfSymlink(p string) bool {
	if fi, err := simos.Lstat(p); err == nil && fi.Mode()&simos.ModeSymlink != 0 {
		simos.Remove(p)
		return true
	}
	return false
}

// writeNoFollow writes a file in a watched directory without ever writing
// THROUGH a symbolic link found under that name (see unlinkIfSymlink).
func writeNoFollow(p string, content []byte) {
	if f := openNoFollow(p, simos.O_WRONLY|simos.O_CREATE|simos.O_TRUNC); f != nil {
		f.Write(content)
		f.Close()
	}
}

// openNoFollow opens p for writing with O_NOFOLLOW; a symbolic link found
// there is removed and the open tried once more (atomic with respect to the
// other mutator: no window between the test and the open).
func openNoFollow(p string, flags int) *simos.File {
	for try := 0; try < 2; try++ {
		f, err := simos.OpenFile(p, flags|syscall.O_NOFOLLOW, 0o644)
		if err == nil {
			return f
		}
		if !errors.Is(err, syscall.ELOOP) {
			return nil
		}
		simos.Remove(p)
	}
	return nil
}

// observation of a cache through queries only
type obs struct {
	Devices []string
	Dev     map[string]string // name -> path|prio|device JSON  ("<nil>")
	Vendors []string
	Classes []string
	VSpecs  map[string]string // vendor -> paths of the Specs GetVendorSpecs returns
	ErrKeys []string          // restricted to Spec-file paths
	Inject  string            // OCI spec after injecting every listed device ("" when nothing resolves)
	InjErr  string
	Refresh string // the lines of the error returned by Refresh(), sorted ("" = nil)
}

// queryKinds are the queries documented to refresh an auto-refreshed cache
// when needed.  A client may use any one of them alone: whichever comes first
// after a change must bring the cache up to date.
var queryKinds = []string{"ListDevices", "GetDevice", "ListVendors", "ListClasses", "GetVendorSpecs", "InjectDevices", "Refresh"}

func vendorsOf(probe []string) []string {
	set := map[string]bool{}
	for _, q := range probe {
		if i := strings.Index(q, "/"); i > 0 {
			set[q[:i]] = true
		}
	}
	return sortedKeys(set)
}

// touch issues ONE query of the given kind (the first thing a client does).
func touch(c *cdi.Cache, probe []string, kind string) {
	sort.Strings(probe)
	switch kind {
	case "ListDevices":
		_ = c.ListDevices()
	case "GetDevice":
		if len(probe) > 0 {
			_ = c.GetDevice(probe[0])
		} else {
			_ = c.GetDevice("vendor.com/gpu=none")
		}
	case "ListVendors":
		_ = c.ListVendors()
	case "ListClasses":
		_ = c.ListClasses()
	case "GetVendorSpecs":
		v := "vendor.com"
		if vs := vendorsOf(probe); len(vs) > 0 {
			v = vs[0]
		}
		_ = c.GetVendorSpecs(v)
	case "InjectDevices":
		name := "vendor.com/gpu=none"
		if len(probe) > 0 {
			name = probe[0]
		}
		_, _ = c.InjectDevices(&oci.Spec{}, name)
	case "Refresh":
		// in auto mode: refreshes only if the cache is out of date
		_ = c.Refresh()
	}
}

// observe reads everything through queries.  withRefresh also records the
// value of Refresh(): harmless in auto mode (it does not force a rescan) and
// for a throw-away reference cache, but it would rescan a manual cache.
func observe(c *cdi.Cache, probe []string, withRefresh ...bool) *obs {
	return observeFirst(c, probe, "ListDevices", len(withRefresh) > 0 && withRefresh[0])
}

// observeFirst is observe with the query of kind first issued before all
// others, and its answer being the one recorded for that part of the
// observation: if that query alone fails to bring the cache up to date, the
// observation shows the stale answer.
func observeFirst(c *cdi.Cache, probe []string, first string, withRefresh bool) *obs {
	o := &obs{Dev: map[string]string{}, VSpecs: map[string]string{}}
	listed := false
	parts := map[string]func(){
		"ListDevices": func() { o.Devices = c.ListDevices(); listed = true },
		"GetDevice": func() {
			names := map[string]bool{}
			for _, n := range o.Devices {
				names[n] = true
			}
			for _, n := range probe {
				names[n] = true
			}
			for _, n := range sortedKeys(names) {
				if _, done := o.Dev[n]; done {
					continue
				}
				d := c.GetDevice(n)
				if d == nil {
					o.Dev[n] = "<nil>"
					continue
				}
				b, _ := json.Marshal(d.Device)
				o.Dev[n] = fmt.Sprintf("%s|%d|%s", d.GetSpec().GetPath(), d.GetSpec().GetPriority(), b)
			}
		},
		"ListVendors": func() { o.Vendors = c.ListVendors() },
		"ListClasses": func() { o.Classes = c.ListClasses() },
		"GetVendorSpecs": func() {
			set := map[string]bool{}
			for _, v := range vendorsOf(probe) {
				set[v] = true
			}
			for _, v := range o.Vendors {
				set[v] = true
			}
			for _, v := range sortedKeys(set) {
				if _, done := o.VSpecs[v]; done {
					continue
				}
				var paths []string
				for _, s := range c.GetVendorSpecs(v) {
					paths = append(paths, s.GetPath())
				}
				sort.Strings(paths)
				o.VSpecs[v] = strings.Join(paths, ",")
			}
		},
		"InjectDevices": func() {
			names := o.Devices
			if !listed {
				names = append([]string(nil), probe...)
				sort.Strings(names)
			}
			if len(names) > 0 {
				spec := &oci.Spec{}
				_, err := c.InjectDevices(spec, names...)
				if err != nil {
					o.InjErr = err.Error()
				}
				b, _ := json.Marshal(spec)
				o.Inject = fmt.Sprintf("%v -> %s", names, b)
			}
		},
	}
	refreshed := false
	parts["Refresh"] = func() {
		if withRefresh && !refreshed {
			refreshed = true
			if err := c.Refresh(); err != nil {
				o.Refresh = refreshLines(err)
			}
		}
	}
	parts[first]()
	for _, k := range queryKinds {
		if k != first && k != "Refresh" {
			parts[k]()
		}
	}
	if first == "GetDevice" || first == "GetVendorSpecs" {
		parts[first]() // the names that only the listings reveal (the others keep their first answer)
	}
	for k := range c.GetErrors() {
		if ext := filepath.Ext(k); ext == ".json" || ext == ".yaml" {
			o.ErrKeys = append(o.ErrKeys, k)
		}
	}
	sort.Strings(o.ErrKeys)
	parts["Refresh"]()
	return o
}

func refreshLines(err error) string {
	lines := strings.Split(err.Error(), "\n")
	sort.Strings(lines)
	return strings.Join(lines, " ; ")
}

func diffObs(a, b *obs) string {
	if !eqStrings(a.Devices, b.Devices) {
		return fmt.Sprintf("devices|ListDevices = %v, a fresh cache lists %v", a.Devices, b.Devices)
	}
	names := map[string]bool{}
	for n := range a.Dev {
		names[n] = true
	}
	for n := range b.Dev {
		names[n] = true
	}
	for _, n := range sortedKeys(names) {
		if a.Dev[n] != b.Dev[n] {
			return fmt.Sprintf("definition|GetDevice(%s) = %s, a fresh cache returns %s", n, a.Dev[n], b.Dev[n])
		}
	}
	if !eqStrings(a.Vendors, b.Vendors) {
		return fmt.Sprintf("vendors|ListVendors = %v, a fresh cache lists %v", a.Vendors, b.Vendors)
	}
	if !eqStrings(a.Classes, b.Classes) {
		return fmt.Sprintf("classes|ListClasses = %v, a fresh cache lists %v", a.Classes, b.Classes)
	}
	vs := map[string]bool{}
	for v := range a.VSpecs {
		vs[v] = true
	}
	for v := range b.VSpecs {
		vs[v] = true
	}
	for _, v := range sortedKeys(vs) {
		if a.VSpecs[v] != b.VSpecs[v] {
			return fmt.Sprintf("vendor-specs|GetVendorSpecs(%s) = [%s], a fresh cache returns [%s]", v, a.VSpecs[v], b.VSpecs[v])
		}
	}
	if !eqStrings(a.ErrKeys, b.ErrKeys) {
		return fmt.Sprintf("errors|files in error = %v, a fresh cache reports %v", a.ErrKeys, b.ErrKeys)
	}
	if a.Refresh != b.Refresh {
		return fmt.Sprintf("refresh-result|Refresh() returns [%s], with a fresh cache [%s]", a.Refresh, b.Refresh)
	}
	if a.Inject != b.Inject || a.InjErr != b.InjErr {
		return fmt.Sprintf("injection|injecting all devices gives %s (%s), with a fresh cache %s (%s)", a.Inject, a.InjErr, b.Inject, b.InjErr)
	}
	return ""
}

func converge(r *core.Run, reconfigure bool) {
	src := r.Src
	drawMapOrder(r)
	// scale: one run in thirty starts with a crowded directory (150-250 Spec
	// files) that the history removes as a tree and recreates: a burst of
	// events far beyond what any fixed-size queue of a handful of entries holds
	crowded := !reconfigure && (src.Bool(1, 30) || os.Getenv("VERIF_FORCE_CROWDED") != "")
	maxSteps := 0
	if crowded {
		maxSteps = 1500000
		r.Knob("crowded_directory", true)
	}
	e := newEnv(r, sched.Config{SwitchDen: []int{1, 1, 2, 4}[src.Intn(4)], MaxSteps: maxSteps}, memfs.Cred{})
	c := &cv{env: e}
	c.mut = e.w.NewProc("admin", memfs.Cred{})
	if src.Bool(1, 3) {
		// one kind, two device names: conflicts and shadowing are the rule
		c.opts = gen.Opts{Vendors: []string{"vendor.com"}, Classes: []string{"gpu"}, DevNames: []string{"dev0", "dev1"}}
		r.Knob("narrow_names", true)
	}
	// event loss: sometimes the inotify queue is short (fs.inotify.max_queued_events),
	// so that a burst while the watcher is slow overflows it
	if src.Bool(1, 5) {
		e.w.FS.MaxQueuedEvents = 3 + src.Intn(10)
		r.Knob("max_queued_events", e.w.FS.MaxQueuedEvents)
	}
	// directories
	src.Begin("dirs")
	pool := append([]string(nil), dirPoolNested...)
	n := 1 + src.Intn(3)
	for len(c.dirs) < n {
		i := src.Intn(len(pool))
		c.dirs = append(c.dirs, pool[i])
		pool = append(pool[:i:i], pool[i+1:]...)
	}
	src.End()
	pl := &plan{files: map[string]bool{}, dirs: map[string]bool{}}
	e.admin.MkdirAll("/staging", 0o755)
	for _, d := range c.dirs {
		switch src.Intn(4) {
		case 0: // missing at start (parent present)
			e.admin.MkdirAll(filepath.Dir(d), 0o755)
		case 1: // parent missing too
		default:
			e.admin.MkdirAll(d, 0o755)
			pl.dirs[d] = true
			if src.Bool(1, 2) {
				name := specNames[src.Intn(len(specNames))]
				m := c.content(name)
				e.admin.WriteFile(d+"/"+name, m.Content, 0o644)
				pl.files[d+"/"+name] = true
				r.Notef("initial %s/%s = %s", d, name, m)
			}
		}
	}
	crowdedDir := ""
	if crowded {
		crowdedDir = c.dirs[src.Intn(len(c.dirs))]
		e.admin.MkdirAll(crowdedDir, 0o755)
		pl.dirs[crowdedDir] = true
		n := 150 + src.Intn(101)
		for i := 0; i < n; i++ {
			name := fmt.Sprintf("c%03d%s", i, []string{".json", ".yaml"}[i%2])
			m := c.reg.Valid(src, i%2 == 0, gen.Opts{Vendors: []string{fmt.Sprintf("v%03d.org", i)}})
			e.admin.WriteFile(crowdedDir+"/"+name, m.Content, 0o644)
			pl.files[crowdedDir+"/"+name] = true
		}
		r.Notef("crowded: %d Spec files in %s", n, crowdedDir)
		r.Probe("crowded_directory_burst")
	}
	r.Notef("dirs %v (present: %v)", c.dirs, sortedKeys(pl.dirs))
	given := uncleanDirs(src, c.dirs)
	if fmt.Sprint(given) != fmt.Sprint(c.dirs) {
		r.Notef("directories given as %q", given)
	}
	e.do("NewCache", func() {
		cc, _ := cdi.NewCache(cdi.WithSpecDirs(given...), cdi.WithAutoRefresh(true))
		e.cache = cc
	})
	// the history, split over 1-2 mutator tasks
	src.Begin("history")
	nops := 1 + src.Intn(12)
	if r.Tier == "thorough" && src.Bool(1, 3) {
		nops = 12 + src.Intn(25) // deeper histories in the thorough tier
	}
	nmut := 1 + src.Intn(2)
	if r.Tier == "thorough" && src.Bool(1, 4) {
		nmut = 3
	}
	progs := make([][]mutOp, nmut)
	if crowded {
		nops = 1 + src.Intn(3) // the burst is the point; every event costs a scan of the crowded directory
	}
	for i := 0; i < nops; i++ {
		op := c.genOp(pl)
		k := src.Intn(nmut)
		progs[k] = append(progs[k], op)
		r.Notef("mutator%d: %s", k, op.desc)
	}
	if crowded {
		// the tree goes away in one go and comes back with one file
		d := crowdedDir
		name := specNames[src.Intn(len(specNames))]
		m := c.content(name)
		for f := range pl.files {
			if filepath.Dir(f) == d {
				delete(pl.files, f)
			}
		}
		pl.files[d+"/"+name] = true
		pl.dirs[d] = true
		k := src.Intn(nmut)
		progs[k] = append(progs[k], mutOp{fmt.Sprintf("rm -r %s (crowded); mkdir %s; write %s = %s", d, d, name, m), func() {
			simos.RemoveAll(d)
			if simos.MkdirAll(d, 0o755) == nil {
				writeNoFollow(d+"/"+name, m.Content)
			}
		}})
		r.Notef("mutator%d: rm -r %s (crowded); mkdir; write %s = %s", k, d, name, m)
		// ... and a change in the recreated directory some time later: whether it
		// is still (or again) watched only shows then
		late := c.content("late.json")
		pl.files[d+"/late.json"] = true
		progs[k] = append(progs[k], mutOp{fmt.Sprintf("create %s/late.json = %s", d, late), func() {
			// long after the burst: the watcher has worked off its backlog by then
			for i := 0; i < 3000; i++ {
				e.w.Yield(&sched.Op{Kind: "idle", Path: ""})
			}
			writeNoFollow(d+"/late.json", late.Content)
		}})
		r.Notef("mutator%d: (later) create %s/late.json = %s", k, d, late)
	}
	src.End()
	var tasks []*sched.Task
	for k := range progs {
		prog := progs[k]
		proc := c.mut
		if k > 0 {
			proc = e.w.NewProc(fmt.Sprintf("admin%d", k), memfs.Cred{})
		}
		tasks = append(tasks, e.w.Spawn(proc, fmt.Sprintf("mutator%d", k), func() {
			for _, op := range prog {
				op.run()
			}
		}))
	}
	// sometimes one mutator lives in a process of its own that is killed at a
	// drawn system call: whatever it was doing stays half done (a partial file,
	// a temp file, a half removed tree)
	if src.Bool(1, 5) && len(tasks) > 0 {
		killAt := 1 + src.Intn(25)
		victim := tasks[len(tasks)-1]
		n := 0
		e.w.Policy = func(t *sched.Task, op *sched.Op) sched.Decision {
			if t != victim || !op.Sys {
				return sched.Decision{}
			}
			n++
			if n == killAt {
				return sched.Decision{Kill: true}
			}
			return sched.Decision{}
		}
		r.Knob("mutator_killed_at_syscall", killAt)
	}
	// query tasks that only poll (their results are not judged, a crash or hang is)
	nq := src.Intn(3)
	for q := 0; q < nq; q++ {
		k := 1 + src.Intn(4)
		tasks = append(tasks, e.w.Spawn(e.app, fmt.Sprintf("poller%d", q), func() {
			for i := 0; i < k; i++ {
				for _, n := range e.cache.ListDevices() {
					_ = e.cache.GetDevice(n)
				}
			}
		}))
	}
	// pacing: sometimes starve the watcher or the mutators for long stretches
	switch src.Intn(4) {
	case 1:
		for _, t := range e.w.Tasks() {
			if strings.Contains(t.Name, "#") { // a goroutine started by the library (simrt.Go names them callee#n)
				t.SetWeight(8)
				r.Knob("starved", "watcher")
			}
		}
	case 2:
		tasks[0].SetWeight(8)
		r.Knob("starved", "mutator0")
	}
	e.w.Run(func() bool {
		for _, t := range tasks {
			if !t.Done {
				return false
			}
		}
		return true
	})
	r.CheckHealth("history")
	for _, t := range tasks {
		e.w.Join(t)
		if !t.Done {
			r.Failf("hang", t.PendingKind(), "task %s cannot finish: blocked on %s", t.Name, t.PendingKind())
		}
	}
	// ---- the changes have ceased ----
	e.w.Quiesce()
	r.CheckHealth("quiescence after the history")
	truth := model.Observe(e.w.FS, c.dirs, e.reg, e.app.Cred)
	// A mutator that was killed part-way leaves files whose content the
	// generator does not know (a prefix of a Spec).  The model cannot classify
	// those; the comparison with a freshly built cache (real code on the same
	// disk) still applies in full.
	unknown := truth.HasUnknown()
	if unknown {
		r.Probe("partial_file_left_by_killed_mutator")
	}
	var probe []string
	for q := range truth.Defined() {
		probe = append(probe, q)
	}
	// first query round: this is where missing or removed directories are re-added
	// A client may use any one kind of query alone: the first round is ONE
	// query of a drawn kind, the observed round starts with the same kind.
	first := queryKinds[src.Intn(len(queryKinds))]
	r.Knob("first_query", first)
	// a client may also start with a call that is NOT meant to refresh (an error
	// getter): it must not get in the way of the queries that follow
	if prelude := src.Intn(4); prelude > 0 {
		r.Knob("prelude", []string{"", "GetSpecDirErrors", "GetErrors", "GetSpecDirectories"}[prelude])
		e.do("prelude", func() {
			switch prelude {
			case 1:
				_ = e.cache.GetSpecDirErrors()
			case 2:
				_ = e.cache.GetErrors()
			case 3:
				_ = e.cache.GetSpecDirectories()
			}
		})
	}
	e.do("queries-1", func() { touch(e.cache, probe, first) })
	e.w.Quiesce()
	r.CheckHealth("quiescence after the first query round")
	var got *obs
	e.do("queries-2", func() { got = observeFirst(e.cache, probe, first, true) })
	// reference 1: a fresh manual cache built by the real code on the final disk
	var want *obs
	e.do("fresh-cache", func() {
		fresh, _ := cdi.NewCache(cdi.WithSpecDirs(c.dirs...), cdi.WithAutoRefresh(false))
		want = observeFirst(fresh, probe, first, true)
	})
	if d := diffObs(got, want); d != "" {
		parts := strings.SplitN(d, "|", 2)
		r.Failf("not-converged", parts[0], "after the directory changes ceased and two rounds of queries, the auto-refreshed cache differs from a cache freshly built from the final directory contents: %s", parts[1])
	}
	// reference 2: the model
	if unknown {
		r.State(e.w.FS.Digest("/") + fmt.Sprint(got.Devices))
		return
	}
	var v *View
	e.do("queries-3", func() { v = Query(e.cache, probe) })
	dk := map[string]bool{}
	for _, d := range c.dirs {
		dk[d] = true
	}
	if rule, sig, msg := CompareTruth(v, truth, CheckOpts{Where: "after convergence", DirKeys: dk}); rule != "" {
		r.Failf("model-"+rule, sig, "%s", msg)
	}
	r.State(e.w.FS.Digest("/") + fmt.Sprint(got.Devices))
}
