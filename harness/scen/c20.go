package scen

import (
	"fmt"
	"path/filepath"
	"sort"
	"strings"
	"syscall"

	"tags.cncf.io/container-device-interface/pkg/cdi"
	"verif/sim/memfs"
	"verif/sim/sched"
	"verifharness/core"
	"verifharness/gen"
	"verifharness/model"
)

func init() {
	All["c20"] = c20
}

type cfgStep struct {
	setDirs bool
	dirs    []string
	setAuto bool
	auto    bool
	emfile  bool // the call happens inside a window of descriptor exhaustion
	// order of the options inside the one call: 0 dirs then auto, 1 auto then
	// dirs, 2 superseded options first (the last occurrence of an option wins)
	order      int
	shadowDirs []string
	shortage   bool // observed: a window of descriptor exhaustion was open at some point of the call
}

func (s cfgStep) String() string {
	var parts []string
	if s.setDirs {
		parts = append(parts, fmt.Sprintf("WithSpecDirs(%v)", s.dirs))
	}
	if s.setAuto {
		parts = append(parts, fmt.Sprintf("WithAutoRefresh(%v)", s.auto))
	}
	if s.order >= 1 && len(parts) == 2 {
		parts[0], parts[1] = parts[1], parts[0]
	}
	if s.order == 2 {
		var pre []string
		if s.setAuto {
			pre = append(pre, fmt.Sprintf("WithAutoRefresh(%v)", !s.auto))
		}
		if s.setDirs {
			pre = append(pre, fmt.Sprintf("WithSpecDirs(%v)", s.shadowDirs))
		}
		parts = append(pre, parts...)
	}
	out := "Configure(" + strings.Join(parts, ", ") + ")"
	if s.emfile {
		out += " [no free descriptors]"
	}
	return out
}

func (s cfgStep) options() []cdi.Option {
	var o []cdi.Option
	if s.setDirs {
		o = append(o, cdi.WithSpecDirs(s.dirs...))
	}
	if s.setAuto {
		o = append(o, cdi.WithAutoRefresh(s.auto))
	}
	if s.order >= 1 && len(o) == 2 {
		o[0], o[1] = o[1], o[0]
	}
	if s.order == 2 {
		var pre []cdi.Option
		if s.setAuto {
			pre = append(pre, cdi.WithAutoRefresh(!s.auto))
		}
		if s.setDirs {
			pre = append(pre, cdi.WithSpecDirs(s.shadowDirs...))
		}
		o = append(pre, o...)
	}
	return o
}

func dirErrs(c *cdi.Cache) map[string]string {
	out := map[string]string{}
	for d, e := range c.GetSpecDirErrors() {
		out[d] = e.Error()
	}
	return out
}

func fmtMap(m map[string]string) string {
	var ks []string
	for k := range m {
		ks = append(ks, k)
	}
	sort.Strings(ks)
	var parts []string
	for _, k := range ks {
		parts = append(parts, k+": "+m[k])
	}
	return "{" + strings.Join(parts, "; ") + "}"
}

func c20(r *core.Run) {
	src := r.Src
	drawMapOrder(r)
	e := newEnv(r, sched.Config{SwitchDen: []int{1, 2, 4}[src.Intn(3)]}, memfs.Cred{})
	c := &cv{env: e}
	c.mut = e.w.NewProc("admin", memfs.Cred{})
	useDefault := src.Bool(1, 3)
	r.Knob("default_cache", useDefault)
	if src.Bool(1, 6) {
		e.w.FS.MaxQueuedEvents = 3 + src.Intn(10) // event loss by queue overflow
		r.Knob("max_queued_events", e.w.FS.MaxQueuedEvents)
	}
	pool := []string{"/etc/cdi", "/var/run/cdi", "/opt/vendor/cdi", "/usr/local/etc/cdi", "/etc/cdi.d"}
	// all pool directories are candidates for the mutators: changes hit former, current and future directories
	c.dirs = pool
	pl := &plan{files: map[string]bool{}, dirs: map[string]bool{}}
	e.admin.MkdirAll("/staging", 0o755)
	src.Begin("populate")
	for _, d := range pool {
		if src.Bool(2, 3) {
			e.admin.MkdirAll(d, 0o755)
			pl.dirs[d] = true
			if src.Bool(1, 2) {
				name := specNames[src.Intn(len(specNames))]
				m := c.content(name)
				e.admin.WriteFile(d+"/"+name, m.Content, 0o644)
				pl.files[d+"/"+name] = true
				r.Notef("initial %s/%s = %s", d, name, m)
			}
		} else {
			e.admin.MkdirAll(filepath.Dir(d), 0o755)
		}
	}
	src.End()
	drawDirs := func() []string {
		n := src.Intn(4)
		var out []string
		for i := 0; i < n; i++ {
			out = append(out, pool[src.Intn(len(pool))])
		}
		return uncleanDirs(src, out) // sometimes in a spelling that is not clean
	}
	// current options
	curDirs := []string{"/etc/cdi", "/var/run/cdi"}
	curAuto := true
	// initial cache
	var initial cfgStep
	src.Begin("initial")
	if src.Bool(2, 3) {
		initial.setDirs, initial.dirs = true, drawDirs()
	}
	if src.Bool(1, 2) {
		initial.setAuto, initial.auto = true, src.Bool(1, 2)
	}
	src.End()
	apply := func(s cfgStep) {
		if s.setDirs {
			curDirs = append([]string(nil), s.dirs...)
		}
		if s.setAuto {
			curAuto = s.auto
		}
	}
	firstTouch := 0
	// further package-level Configure calls BEFORE the default cache is first
	// used (GetDefaultCache, a query): each must take effect like any other
	var preUse []cfgStep
	if useDefault {
		firstTouch = src.Intn(3)
		if firstTouch == 0 {
			for i, n := 0, src.Intn(3); i < n; i++ {
				var s cfgStep
				switch src.Intn(3) {
				case 0:
					s.setDirs, s.dirs = true, drawDirs()
				case 1:
					s.setAuto, s.auto = true, src.Bool(1, 2)
				default:
					s.setDirs, s.dirs = true, drawDirs()
					s.setAuto, s.auto = true, src.Bool(1, 2)
				}
				preUse = append(preUse, s)
			}
		}
	}
	e.do("create", func() {
		if !useDefault {
			cc, _ := cdi.NewCache(initial.options()...)
			e.cache = cc
			return
		}
		switch firstTouch {
		case 0: // first touched by Configure with options: they take effect
			_ = cdi.Configure(initial.options()...)
			for _, s := range preUse {
				_ = cdi.Configure(s.options()...)
			}
		case 1: // first touched by GetDefaultCache: default options
			_ = cdi.GetDefaultCache()
			initial = cfgStep{}
		case 2: // first touched by a query
			_ = cdi.GetErrors()
			initial = cfgStep{}
		}
		e.cache = cdi.GetDefaultCache()
	})
	if len(initial.options()) == 0 && useDefault && firstTouch == 0 {
		// Configure() without options on an untouched default cache creates it with defaults
		initial = cfgStep{}
	}
	apply(initial)
	for _, s := range preUse {
		apply(s)
		r.Notef("before the first use of the default cache: %s", s)
	}
	r.Notef("initial cache: default=%v %s -> dirs %v auto %v", useDefault, initial, curDirs, curAuto)

	// ---- histories ----
	src.Begin("reconfigurations")
	nc := 1 + src.Intn(6)
	if r.Tier == "thorough" && src.Bool(1, 4) {
		nc = 10 + src.Intn(30)
	}
	var steps []cfgStep
	for i := 0; i < nc; i++ {
		var s cfgStep
		switch src.Intn(7) {
		case 0, 1:
			s.setDirs, s.dirs = true, drawDirs()
		case 2, 3:
			s.setAuto, s.auto = true, src.Bool(1, 2)
		case 4, 5:
			s.setDirs, s.dirs = true, drawDirs()
			s.setAuto, s.auto = true, src.Bool(1, 2)
		default: // Configure() without options: documented to do nothing
		}
		s.emfile = src.Bool(1, 6)
		if src.Bool(1, 3) {
			s.order = 1 + src.Intn(2)
			if s.order == 2 {
				s.shadowDirs = drawDirs()
			}
		}
		steps = append(steps, s)
		r.Notef("reconfigure: %s", s)
	}
	src.End()
	for _, s := range steps {
		apply(s)
	}
	src.Begin("history")
	nops := src.Intn(9)
	var prog []mutOp
	for i := 0; i < nops; i++ {
		op := c.genOp(pl)
		prog = append(prog, op)
		r.Notef("mutator: %s", op.desc)
	}
	src.End()
	looseWindow := src.Bool(1, 3)
	r.Knob("loose_emfile_window", looseWindow)
	// the squeezer's windows: {idle steps before, idle steps inside}
	nsq := 0
	var squeeze [][2]int
	if src.Bool(1, 4) {
		nsq = 1 + src.Intn(2)
		for i := 0; i < nsq; i++ {
			squeeze = append(squeeze, [2]int{src.Intn(12), 1 + src.Intn(8)})
		}
		r.Knob("squeezer_windows", fmt.Sprint(squeeze))
	}
	// descriptor exhaustion: inside a window another part of the process holds every free descriptor
	var hog []int
	inWindow := false
	refill := func() {
		for e.app.NumFDs() < e.app.NoFile {
			fd, errno := e.app.AllocAux()
			if errno != 0 {
				break
			}
			hog = append(hog, fd)
		}
	}
	e.w.OnStep = func() {
		if inWindow && !looseWindow {
			refill()
		}
	}
	// windows may overlap (the reconfigurer's own and the squeezer's)
	winDepth, winEpoch := 0, 0
	openWindow := func() {
		winDepth++
		winEpoch++
		e.app.NoFile = e.app.NumFDs()
		inWindow = true
	}
	closeWindow := func() {
		winDepth--
		if winDepth > 0 {
			return
		}
		inWindow = false
		for _, fd := range hog {
			e.app.Close(fd)
		}
		hog = nil
		e.app.NoFile = 1024
	}
	var postCfg *obs
	var lastTruth *model.Truth // the disk as the last Configure saw it (manual final mode, nobody else writing meanwhile)
	reconf := e.w.Spawn(e.app, "reconfigurer", func() {
		for i := range steps {
			s := &steps[i]
			if s.emfile {
				e.w.Yield(&sched.Op{Kind: "window-open", Path: ""})
				openWindow()
				e.w.Probe("emfile_window")
			}
			ep := winEpoch
			s.shortage = inWindow
			hBefore := len(e.w.FS.Hist)
			if useDefault {
				_ = cdi.Configure(s.options()...)
			} else {
				_ = e.cache.Configure(s.options()...)
			}
			s.shortage = s.shortage || inWindow || winEpoch != ep
			if i == len(steps)-1 && !curAuto && (s.setDirs || s.setAuto) && !s.shortage {
				// A Configure with options rescans (a NEW cache created now would
				// hold exactly this): what the manual cache answers from here on must
				// be the disk as Configure saw it - provided nobody changed the disk
				// while it was looking.
				quiet := true
				for _, h := range e.w.FS.Hist[hBefore:] {
					quiet = quiet && !(h.Mutating && h.Proc != e.app.Name)
				}
				if quiet {
					dirs := make([]string, len(curDirs))
					for k, d := range curDirs {
						dirs[k] = filepath.Clean(d)
					}
					lastTruth = model.Observe(e.w.FS, dirs, e.reg, e.app.Cred)
				}
			}
			if s.emfile {
				e.w.Yield(&sched.Op{Kind: "window-close", Path: ""})
				closeWindow()
			}
		}
		if !curAuto {
			// the final mode is manual: from here on nothing but an explicit
			// Refresh() may change what the cache answers
			postCfg = observeFirst(e.cache, nil, "ListDevices", false)
		}
	})
	tasks := []*sched.Task{reconf}
	// descriptor exhaustion "at any step": a shortage that begins and ends
	// at arbitrary system calls of whatever the cache is doing (in the middle
	// of a directory scan, between the listing and the reading of a file)
	if nsq > 0 {
		tasks = append(tasks, e.w.Spawn(e.app, "squeezer", func() {
			for _, w := range squeeze {
				for i := 0; i < w[0]; i++ {
					e.w.Yield(&sched.Op{Kind: "idle", Path: ""})
				}
				e.w.Yield(&sched.Op{Kind: "window-open", Path: ""})
				openWindow()
				e.w.Probe("emfile_window_mid_operation")
				for i := 0; i < w[1]; i++ {
					e.w.Yield(&sched.Op{Kind: "idle", Path: ""})
				}
				e.w.Yield(&sched.Op{Kind: "window-close", Path: ""})
				closeWindow()
			}
		}))
	}
	tasks = append(tasks, e.w.Spawn(c.mut, "mutator", func() {
		for _, op := range prog {
			op.run()
		}
	}))
	if src.Bool(1, 2) {
		k := 1 + src.Intn(4)
		tasks = append(tasks, e.w.Spawn(e.app, "poller", func() {
			for i := 0; i < k; i++ {
				for _, n := range e.cache.ListDevices() {
					_ = e.cache.GetDevice(n)
				}
				_ = e.cache.GetErrors()
			}
		}))
	}
	e.w.Run(func() bool {
		for _, t := range tasks {
			if !t.Done {
				return false
			}
		}
		return true
	})
	r.CheckHealth("histories")
	for _, t := range tasks {
		e.w.Join(t)
		if !t.Done {
			r.Failf("hang", t.PendingKind(), "task %s cannot finish: blocked on %s", t.Name, t.PendingKind())
		}
	}
	e.w.OnStep = nil
	e.w.Quiesce()
	r.CheckHealth("quiescence")
	histAtQuiescence := len(e.w.FS.Hist)
	// Configure() without options is documented to do nothing: the last call
	// that set anything up is the last one WITH options (or the creation).
	lastInWindow := false
	for i := len(steps) - 1; i >= 0; i-- {
		if steps[i].setDirs || steps[i].setAuto {
			lastInWindow = steps[i].shortage
			break
		}
	}
	r.Notef("final options: dirs %v auto %v (last Configure inside a descriptor shortage: %v)", curDirs, curAuto, lastInWindow)

	finalDirs := make([]string, len(curDirs))
	for i, d := range curDirs {
		finalDirs[i] = filepath.Clean(d)
	}
	truthOf := func() *model.Truth { return model.Observe(e.w.FS, finalDirs, e.reg, e.app.Cred) }
	truth := truthOf()
	if truth.HasUnknown() {
		r.Discard = "a Spec-named file has content the generator does not know (harness limitation)"
		return
	}
	probeNames := func(t *model.Truth) []string {
		var p []string
		for q := range t.Defined() {
			p = append(p, q)
		}
		return p
	}
	// a client may use any one kind of query alone (see queryKinds)
	first := queryKinds[src.Intn(len(queryKinds))]
	r.Knob("first_query", first)
	app2 := e.w.NewProc("app2", memfs.Cred{})
	// what a process holds on behalf of the library: goroutines the harness did
	// not start, inotify instances, the poller descriptors that go with them, watches
	type resources struct{ lib, inotify, aux, watches int }
	resourcesOf := func(p *sched.Proc) resources {
		var out resources
		for _, t := range p.LiveTasks() {
			// goroutines started by the library are named callee#n by simrt.Go;
			// the harness's own tasks never carry a '#'
			if strings.Contains(t.Name, "#") {
				out.lib++
			}
		}
		kinds := p.FDKinds()
		out.inotify, out.aux = kinds["inotify"], kinds["aux"]
		for _, in := range e.w.FS.Inotifys() {
			if in.Owner == p.Proc {
				out.watches += len(in.WatchedPaths())
			}
		}
		return out
	}
	var freshRes resources
	freshObs := func(label string) (*obs, map[string]string, []string) {
		var o *obs
		var de map[string]string
		var dirs []string
		var fc *cdi.Cache
		e.doIn(app2, "fresh-"+label, func() {
			fc, _ = cdi.NewCache(cdi.WithSpecDirs(curDirs...), cdi.WithAutoRefresh(curAuto))
			touch(fc, probeNames(truthOf()), first)
			o = observeFirst(fc, probeNames(truthOf()), first, curAuto)
			de = dirErrs(fc)
			dirs = fc.GetSpecDirectories()
		})
		e.w.Quiesce()
		freshRes = resourcesOf(app2) // what a new cache with the final options holds
		e.doIn(app2, "fresh-release-"+label, func() {
			_ = fc.Configure(cdi.WithAutoRefresh(false)) // release its watcher
		})
		e.w.Quiesce()
		return o, de, dirs
	}
	// (a) equivalence with a new cache created with the final options.  In
	// manual mode "behaves like a new cache" is observable after an explicit
	// Refresh(): both caches then reflect the same disk.
	if !curAuto {
		if postCfg != nil && lastTruth != nil && !lastTruth.HasUnknown() {
			var wantDevs []string
			for q := range lastTruth.Resolve() {
				wantDevs = append(wantDevs, q)
			}
			sort.Strings(wantDevs)
			if !eqStrings(postCfg.Devices, wantDevs) {
				r.Failf("not-equivalent", "configure-did-not-rescan", "the last Configure(%s) returned with nobody else touching the directories meanwhile, yet right after it the cache lists %v while the directories hold %v: a new cache created with these options at that moment would have scanned them", steps[len(steps)-1], postCfg.Devices, wantDevs)
			}
		}
		if postCfg != nil {
			var now *obs
			e.do("queries-0", func() { now = observeFirst(e.cache, nil, "ListDevices", false) })
			if d := diffObs(now, postCfg); d != "" {
				parts := strings.SplitN(d, "|", 2)
				r.Failf("auto-refresh-still-active", "changed-by-itself/"+parts[0], "auto-refresh is disabled by the final options and Refresh() was not called, yet the answers of the cache changed after the last Configure returned (now vs right after it): %s", parts[1])
			}
		}
		e.do("Refresh-0", func() { _ = e.cache.Refresh() })
	}
	// "still answers EVERY query from the current directory contents": the world
	// is quiet and no descriptor shortage is on, so the very first round of
	// queries - whatever kind comes first - must already be right
	var got1 *obs
	e.do("queries-1", func() { got1 = observeFirst(e.cache, probeNames(truth), first, curAuto) })
	e.w.Quiesce()
	r.CheckHealth("after the first query round")
	var got *obs
	var gotDirErrs map[string]string
	var gotDirs []string
	e.do("queries-2", func() {
		got = observeFirst(e.cache, probeNames(truth), first, curAuto)
		gotDirErrs = dirErrs(e.cache)
		gotDirs = e.cache.GetSpecDirectories()
	})
	want, wantDirErrs, wantDirs := freshObs("a")
	if d := diffObs(got1, want); d != "" && diffObs(got, want) == "" {
		parts := strings.SplitN(d, "|", 2)
		r.Failf("not-equivalent", "first-query-round/"+parts[0], "after the reconfigurations, with the world quiet and descriptors available again, the FIRST round of queries (starting with %s) does not answer from the current directory contents, the second round does: %s", first, parts[1])
	}
	if !eqStrings(gotDirs, wantDirs) {
		r.Failf("not-equivalent", "directories", "GetSpecDirectories() = %v, a new cache with the final options has %v", gotDirs, wantDirs)
	}
	// Was the last directory scan of the cache starved of descriptors (opens failing with EMFILE)?
	starved := false
	if len(finalDirs) > 0 {
		// a scan stats each configured directory once, in order: the last
		// len(finalDirs) such records mark the last scan
		h := e.w.FS.Hist
		isDir := map[string]bool{}
		for _, d := range finalDirs {
			isDir[d] = true
		}
		start, seen := -1, 0
		for i := histAtQuiescence - 1; i >= 0 && seen < len(finalDirs); i-- {
			if h[i].Proc == e.app.Name && h[i].Op == "lstat" && isDir[h[i].Path] {
				seen++
				start = i
			}
		}
		for i := start; i >= 0 && i < histAtQuiescence; i++ {
			if h[i].Proc == e.app.Name && h[i].Err == syscall.EMFILE {
				starved = true
			}
		}
	}
	if d := diffObs(got, want); d != "" {
		parts := strings.SplitN(d, "|", 2)
		if starved && curAuto {
			r.Failf("not-equivalent", "scan-starved-of-descriptors", "the last directory scan of the cache ran without free descriptors (EMFILE) while its watcher exists, and nothing refreshes it afterwards: %s", parts[1])
		}
		r.Failf("not-equivalent", parts[0], "after the reconfigurations %v the cache differs from a new cache created with the final options (dirs %v, auto-refresh %v): %s", steps, curDirs, curAuto, parts[1])
	}
	if !lastInWindow && fmtMap(gotDirErrs) != fmtMap(wantDirErrs) {
		r.Failf("not-equivalent", "directory-errors", "GetSpecDirErrors() = %s, a new cache with the final options reports %s", fmtMap(gotDirErrs), fmtMap(wantDirErrs))
	}
	// (c) bounded resources.  The property asks that what the cache holds does
	// not grow with the number of reconfigurations; it prescribes no design (one
	// watcher or two, watches on the directories only or also on an ancestor of
	// a missing one).  Two measures: against a NEW cache with the final options
	// (plus a constant allowance: an idle watcher kept while auto-refresh is
	// off is wasteful, not unbounded), and growth over three more
	// reconfigurations to the same final options.
	e.w.Quiesce()
	cur := resourcesOf(e.app)
	distinctFinal := map[string]bool{}
	for i, d := range finalDirs {
		if truth.DirState[i] == "ok" {
			distinctFinal[d] = true
		}
	}
	allowWatches := freshRes.watches
	if !curAuto && len(distinctFinal) > allowWatches {
		allowWatches = len(distinctFinal)
	}
	if cur.lib > freshRes.lib+1 {
		r.Failf("resources", "library-goroutines", "%d goroutines started by the library are alive after %d reconfigurations; a new cache with the final options (auto-refresh %v) runs %d: their number must not grow with the number of reconfigurations", cur.lib, len(steps), curAuto, freshRes.lib)
	}
	if cur.inotify > freshRes.inotify+1 || cur.aux > freshRes.aux+3 {
		r.Failf("resources", "descriptors", "after %d reconfigurations the process holds %d inotify descriptors and %d poller descriptors (auto-refresh %v); a new cache with the final options holds %d and %d", len(steps), cur.inotify, cur.aux, curAuto, freshRes.inotify, freshRes.aux)
	}
	if cur.watches > allowWatches {
		var watched []string
		for _, in := range e.w.FS.Inotifys() {
			if in.Owner == e.app.Proc {
				watched = append(watched, in.WatchedPaths()...)
			}
		}
		sort.Strings(watched)
		r.Failf("resources", "watches", "after %d reconfigurations the cache holds %d watches %v; a new cache with the final options (dirs %v, auto-refresh %v) holds %d: watches on directories of earlier configurations are left behind", len(steps), cur.watches, watched, curDirs, curAuto, freshRes.watches)
	}
	base := cur
	for k := 0; k < 4; k++ {
		if k == 1 {
			// the first of the four brings the cache to its normal state (the last
			// Configure of the history may have run without free descriptors)
			base = resourcesOf(e.app)
		}
		e.do(fmt.Sprintf("again-%d", k), func() {
			if useDefault {
				_ = cdi.Configure(cdi.WithSpecDirs(curDirs...), cdi.WithAutoRefresh(curAuto))
			} else {
				_ = e.cache.Configure(cdi.WithSpecDirs(curDirs...), cdi.WithAutoRefresh(curAuto))
			}
			touch(e.cache, probeNames(truth), first)
		})
		e.w.Quiesce()
	}
	r.CheckHealth("after three more reconfigurations to the final options")
	if more := resourcesOf(e.app); more.lib > base.lib || more.inotify > base.inotify || more.aux > base.aux || more.watches > base.watches {
		r.Failf("resources", "growth", "three more reconfigurations to the same final options (dirs %v, auto-refresh %v) raised what the cache holds from %+v to %+v (goroutines, inotify instances, poller descriptors, watches)", curDirs, curAuto, base, more)
	}
	// (b) probe: a change in every final directory that exists
	src.Begin("probe")
	preProbe := got
	nprobe := 0
	seen := map[string]bool{}
	for i, d := range finalDirs {
		if truth.DirState[i] != "ok" || seen[d] {
			continue
		}
		seen[d] = true
		m := e.reg.Valid(src, true, gen.Opts{Vendors: []string{"probe.io"}, Classes: []string{"p" + fmt.Sprint(i)}})
		e.admin.WriteFile(d+"/probe.json", m.Content, 0o644)
		nprobe++
	}
	src.End()
	e.w.Quiesce()
	r.CheckHealth("after the probe change")
	truth2 := truthOf()
	if curAuto {
		e.do("queries-3", func() { touch(e.cache, probeNames(truth2), first) })
		e.w.Quiesce()
		var got2 *obs
		e.do("queries-4", func() { got2 = observeFirst(e.cache, probeNames(truth2), first, true) })
		want2, _, _ := freshObs("b")
		if d := diffObs(got2, want2); d != "" {
			parts := strings.SplitN(d, "|", 2)
			r.Failf("auto-refresh-inactive", parts[0], "auto-refresh is enabled by the final options, but after a change in each final directory (%d probes) and two query rounds the cache differs from a new one: %s", nprobe, parts[1])
		}
	} else {
		var got2 *obs
		e.do("queries-3", func() { got2 = observeFirst(e.cache, probeNames(truth), first, false) })
		if d := diffObs(got2, preProbe); d != "" && nprobe > 0 {
			parts := strings.SplitN(d, "|", 2)
			r.Failf("auto-refresh-still-active", parts[0], "auto-refresh is disabled by the final options, yet without Refresh() the queries changed after a directory change: %s", parts[1])
		}
		e.do("Refresh", func() { _ = e.cache.Refresh() })
		var got3 *obs
		e.do("queries-4", func() { got3 = observeFirst(e.cache, probeNames(truth2), first, false) })
		want3, _, _ := freshObs("c")
		if d := diffObs(got3, want3); d != "" {
			parts := strings.SplitN(d, "|", 2)
			r.Failf("not-equivalent", "after-refresh/"+parts[0], "after Refresh() the manually refreshed cache differs from a new one: %s", parts[1])
		}
	}
	r.State(fmt.Sprintf("%v|%v|%d|%s", curDirs, curAuto, len(steps), e.w.FS.Digest("/")))
}
