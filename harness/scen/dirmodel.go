package scen

import (
	"fmt"
	"path/filepath"
	"sort"
	"strings"

	"tags.cncf.io/container-device-interface/pkg/cdi"
	"verif/sim/memfs"
	"verif/sim/sched"
	"verifharness/core"
	"verifharness/gen"
	"verifharness/model"
)

func init() {
	All["c01"] = func(r *core.Run) { dirmodel(r, dmConfig{}) }
}

type dmConfig struct {
	faults bool // C13: fault states, transient faults, repairs
}

var dirPool = []string{"/etc/cdi", "/run/cdi", "/opt/vendor/cdi", "/usr/local/etc/cdi"}
var specNames = []string{"a.json", "b.yaml", "c.yaml", "vendor-gpu.json", "z.json"}
var otherNames = []string{"README", "x.yml", "x.yaml.bak", "notes.txt", "y.json.tmp"}

type dm struct {
	*env
	cfg   dmConfig
	dirs  []string
	auto  bool
	nfile int
}

// genContent draws a file content: mostly valid, sometimes invalid.
func (d *dm) genContent(name string) *gen.Meta {
	src := d.r.Src
	asJSON := strings.HasSuffix(name, ".json")
	if src.Bool(1, 4) {
		return d.reg.Invalid(src, "")
	}
	return d.reg.Valid(src, asJSON, gen.Opts{})
}

func (d *dm) listSpecFiles() []string {
	snap := d.w.FS.Snapshot("/")
	var out []string
	seen := map[string]bool{}
	for _, dir := range d.dirs {
		if seen[dir] {
			continue
		}
		seen[dir] = true
		for p, e := range snap {
			if filepath.Dir(p) == dir && e.Mode&memfs.S_IFMT == memfs.S_IFREG {
				out = append(out, p)
			}
		}
	}
	sort.Strings(out)
	return out
}

func (d *dm) existingDirs() []string {
	var out []string
	seen := map[string]bool{}
	for _, dir := range d.dirs {
		if seen[dir] {
			continue
		}
		seen[dir] = true
		if e, ok := d.w.FS.Lookup(dir); ok && e.Mode&memfs.S_IFMT == memfs.S_IFDIR {
			out = append(out, dir)
		}
	}
	return out
}

func (d *dm) missingDirs() []string {
	var out []string
	seen := map[string]bool{}
	for _, dir := range d.dirs {
		if seen[dir] {
			continue
		}
		seen[dir] = true
		if _, ok := d.w.FS.Lookup(dir); !ok {
			out = append(out, dir)
		}
	}
	return out
}

// change applies one directory change, atomically, as the administrator.
func (d *dm) change() {
	src := d.r.Src
	src.Begin("change")
	defer src.End()
	p := d.admin
	files := d.listSpecFiles()
	dirs := d.existingDirs()
	missing := d.missingDirs()
	for try := 0; try < 4; try++ {
		switch src.Pick(4, 3, 3, 3, 2, 2, 1, 1, 1) {
		case 0: // create a file in place
			if len(dirs) == 0 {
				continue
			}
			dir := dirs[src.Intn(len(dirs))]
			name := specNames[src.Intn(len(specNames))]
			if src.Bool(1, 6) {
				name = otherNames[src.Intn(len(otherNames))]
			}
			m := d.genContent(name)
			p.WriteFile(dir+"/"+name, m.Content, 0o644)
			d.r.Notef("write %s/%s = %s", dir, name, m)
			return
		case 1: // rewrite an existing file with a new revision or other content
			if len(files) == 0 {
				continue
			}
			f := files[src.Intn(len(files))]
			e, _ := d.w.FS.Lookup(f)
			old := d.reg.Lookup(e.Data)
			var m *gen.Meta
			if old != nil && old.Valid && src.Bool(2, 3) {
				m = d.reg.Revise(src, old, gen.Opts{})
			} else {
				m = d.genContent(f)
			}
			p.WriteFile(f, m.Content, 0o644)
			d.r.Notef("rewrite %s = %s", f, m)
			return
		case 2: // replace by temp + rename
			if len(dirs) == 0 {
				continue
			}
			dir := dirs[src.Intn(len(dirs))]
			name := specNames[src.Intn(len(specNames))]
			m := d.genContent(name)
			tmp := fmt.Sprintf("%s/.tmp%d", dir, d.w.FS.NextTemp())
			p.WriteFile(tmp, m.Content, 0o600)
			p.Rename(memfs.AT_FDCWD, tmp, memfs.AT_FDCWD, dir+"/"+name, 0)
			d.r.Notef("replace %s/%s (temp+rename) = %s", dir, name, m)
			return
		case 3: // remove a file
			if len(files) == 0 {
				continue
			}
			f := files[src.Intn(len(files))]
			p.Unlink(memfs.AT_FDCWD, f)
			d.r.Notef("remove %s", f)
			return
		case 4: // rename inside its directory (to a Spec name or a non-Spec name)
			if len(files) == 0 {
				continue
			}
			f := files[src.Intn(len(files))]
			name := specNames[src.Intn(len(specNames))]
			if src.Bool(1, 3) {
				name = otherNames[src.Intn(len(otherNames))]
			}
			to := filepath.Dir(f) + "/" + name
			p.Rename(memfs.AT_FDCWD, f, memfs.AT_FDCWD, to, 0)
			d.r.Notef("rename %s -> %s", f, to)
			return
		case 5: // move between directories (or in from a staging directory)
			if len(dirs) == 0 {
				continue
			}
			dir := dirs[src.Intn(len(dirs))]
			name := specNames[src.Intn(len(specNames))]
			if len(files) > 0 && src.Bool(1, 2) {
				f := files[src.Intn(len(files))]
				p.Rename(memfs.AT_FDCWD, f, memfs.AT_FDCWD, dir+"/"+name, 0)
				d.r.Notef("move %s -> %s/%s", f, dir, name)
				return
			}
			m := d.genContent(name)
			p.MkdirAll("/staging", 0o755)
			st := fmt.Sprintf("/staging/s%d", d.w.FS.NextTemp())
			p.WriteFile(st, m.Content, 0o644)
			p.Rename(memfs.AT_FDCWD, st, memfs.AT_FDCWD, dir+"/"+name, 0)
			d.r.Notef("move in %s/%s = %s", dir, name, m)
			return
		case 6: // create a missing configured directory (and maybe a file in it)
			if len(missing) == 0 {
				continue
			}
			dir := missing[src.Intn(len(missing))]
			p.MkdirAll(dir, 0o755)
			d.r.Notef("mkdir %s", dir)
			if src.Bool(1, 2) {
				name := specNames[src.Intn(len(specNames))]
				m := d.genContent(name)
				p.WriteFile(dir+"/"+name, m.Content, 0o644)
				d.r.Notef("write %s/%s = %s", dir, name, m)
			}
			return
		case 7: // remove a configured directory with its content
			if len(dirs) == 0 {
				continue
			}
			dir := dirs[src.Intn(len(dirs))]
			p.RemoveAll(dir)
			d.r.Notef("rm -r %s", dir)
			return
		case 8: // a subdirectory with a Spec name holding a valid Spec (must be ignored)
			if len(dirs) == 0 {
				continue
			}
			dir := dirs[src.Intn(len(dirs))]
			sub := dir + "/sub.yaml"
			if p.Mkdir(sub, 0o755) == 0 {
				m := d.reg.Valid(src, false, gen.Opts{})
				p.WriteFile(sub+"/inner.yaml", m.Content, 0o644)
				d.r.Notef("mkdir %s with inner.yaml = %s", sub, m)
				return
			}
		}
	}
}

func dirmodel(r *core.Run, cfg dmConfig) {
	src := r.Src
	drawMapOrder(r)
	auto := src.Bool(1, 2)
	r.Knob("auto_refresh", auto)
	e := newEnv(r, sched.Config{SwitchDen: 1 + src.Intn(3)}, memfs.Cred{})
	d := &dm{env: e, cfg: cfg, auto: auto}
	// directory list
	src.Begin("dirs")
	n := 1 + src.Intn(4)
	for i := 0; i < n; i++ {
		if i > 0 && src.Bool(1, 6) {
			d.dirs = append(d.dirs, d.dirs[src.Intn(len(d.dirs))]) // listed twice
			continue
		}
		d.dirs = append(d.dirs, dirPool[src.Intn(len(dirPool))])
	}
	src.End()
	r.Notef("dirs %v auto=%v", d.dirs, auto)
	// initial population
	src.Begin("populate")
	seen := map[string]bool{}
	for _, dir := range d.dirs {
		if seen[dir] {
			continue
		}
		seen[dir] = true
		if src.Bool(1, 4) {
			r.Notef("%s missing", dir)
			continue
		}
		e.admin.MkdirAll(dir, 0o755)
	}
	np := src.Intn(7)
	for i := 0; i < np; i++ {
		d.change()
	}
	src.End()
	// create the cache
	e.do("NewCache", func() {
		c, _ := cdi.NewCache(cdi.WithSpecDirs(d.dirs...), cdi.WithAutoRefresh(auto))
		e.cache = c
	})
	d.refreshPoint("initial")
	steps := 1 + src.Intn(8)
	for s := 0; s < steps; s++ {
		src.Begin("step")
		k := 1 + src.Intn(3)
		for i := 0; i < k; i++ {
			d.change()
		}
		d.refreshPoint(fmt.Sprintf("step %d", s+1))
		src.End()
	}
	r.Trivial = false
}

// refreshPoint: manual mode Refresh(); auto mode run to quiescence, then Refresh(); then compare with the model.
func (d *dm) refreshPoint(where string) {
	e := d.env
	if d.auto {
		e.w.Quiesce()
		e.r.CheckHealth(where)
	}
	var refreshErr error
	e.do("Refresh", func() { refreshErr = e.cache.Refresh() })
	if d.auto {
		e.w.Quiesce()
		e.r.CheckHealth(where)
	}
	truth := model.Observe(e.w.FS, d.dirs, e.reg, e.app.Cred)
	var probe []string
	for q := range truth.Defined() {
		probe = append(probe, q)
	}
	probe = append(probe, "vendor.com/gpu=nosuch", "nosuch.org/x=dev0")
	var v *View
	e.do("Query", func() { v = Query(e.cache, probe) })
	e.r.State(e.w.FS.Digest("/") + fmt.Sprint(v.Devices))
	dirKeys := map[string]bool{}
	for _, dir := range d.dirs {
		dirKeys[dir] = true
	}
	rule, sig, msg := CompareTruth(v, truth, CheckOpts{Where: where, DirKeys: dirKeys})
	if rule != "" {
		e.r.Failf(rule, sig, "%s", msg)
	}
	// Refresh() result in manual mode: non-nil iff some Spec file is in error (conflicts may or may not count)
	if !d.auto {
		must := truth.MustErr()
		may := truth.ConflictParticipants()
		if len(must) > 0 && refreshErr == nil {
			e.r.Failf("refresh-result", "nil-despite-errors", "%s: Refresh() returned nil although %v are failing Spec files", where, sortedKeys(must))
		}
		if len(must) == 0 && len(may) == 0 && refreshErr != nil {
			e.r.Failf("refresh-result", "error-without-cause", "%s: Refresh() returned %v although every Spec file is valid and there is no conflict", where, refreshErr)
		}
	}
}
