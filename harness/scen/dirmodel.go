package scen

import (
	"fmt"
	"path/filepath"
	"sort"
	"strings"

	"tags.cncf.io/container-device-interface/pkg/cdi"
	"verif/sim/memfs"
	"verif/sim/sched"
	"verifharness/core"
	"verifharness/gen"
	"verifharness/model"
)

func init() {
	All["c01"] = func(r *core.Run) { dirmodel(r, dmConfig{}) }
}

type dmConfig struct {
	faults bool // C13: fault states, transient faults, repairs
}

// "/etc/cdi.d" has "/etc/cdi" as a bare string prefix, "/etc/cdi/sub/cdi" lies inside another candidate (not as a direct child: the scan tracker tells a configured directory from a directory entry by its path)
var dirPool = []string{"/etc/cdi", "/run/cdi", "/opt/vendor/cdi", "/usr/local/etc/cdi", "/etc/cdi.d"}

// dirPoolNested is used where the scenario does not put files of its own making
// (a regular file in place of an ancestor) into candidate directories.
var dirPoolNested = append(append([]string(nil), dirPool...), "/etc/cdi/sub/cdi")
var specNames = []string{"a.json", "b.yaml", "c.yaml", "vendor-gpu.json", "z.json", ".json", "a.json.yaml"}
var otherNames = []string{"README", "x.yml", "x.yaml.bak", "notes.txt", "y.json.tmp", "X.JSON", "b.Yaml", "json"}

type dm struct {
	*env
	cfg          dmConfig
	dirs         []string
	auto         bool
	transientDen int
	concurrent   bool
	opts         gen.Opts // name space of the generated Specs (narrow in half of the runs: collisions abound)
}

// genContent draws a file content: mostly valid, sometimes invalid.
func (d *dm) genContent(name string) *gen.Meta {
	src := d.r.Src
	asJSON := strings.HasSuffix(name, ".json")
	if src.Bool(1, 4) {
		return d.reg.Invalid(src, "")
	}
	return d.reg.Valid(src, asJSON, d.opts)
}

func (d *dm) listSpecFiles() []string {
	snap := d.w.FS.Snapshot("/")
	var out []string
	seen := map[string]bool{}
	for _, dir := range d.dirs {
		if seen[dir] {
			continue
		}
		seen[dir] = true
		for p, e := range snap {
			if filepath.Dir(p) == dir && e.Mode&memfs.S_IFMT == memfs.S_IFREG {
				out = append(out, p)
			}
		}
	}
	sort.Strings(out)
	return out
}

func (d *dm) existingDirs() []string {
	var out []string
	seen := map[string]bool{}
	for _, dir := range d.dirs {
		if seen[dir] {
			continue
		}
		seen[dir] = true
		if e, ok := d.w.FS.Lookup(dir); ok && e.Mode&memfs.S_IFMT == memfs.S_IFDIR {
			out = append(out, dir)
		}
	}
	return out
}

func (d *dm) missingDirs() []string {
	var out []string
	seen := map[string]bool{}
	for _, dir := range d.dirs {
		if seen[dir] {
			continue
		}
		seen[dir] = true
		if _, ok := d.w.FS.Lookup(dir); !ok {
			out = append(out, dir)
		}
	}
	return out
}

// writeFile writes a regular file at path, replacing a symlink instead of writing through it.
func (d *dm) writeFile(path string, content []byte) {
	if e, ok := d.w.FS.Lookup(path); ok && e.Mode&memfs.S_IFMT == memfs.S_IFLNK {
		d.admin.Unlink(memfs.AT_FDCWD, path)
	}
	d.admin.WriteFile(path, content, 0o644)
}

// change applies one directory change, atomically, as the administrator.
func (d *dm) change() {
	src := d.r.Src
	src.Begin("change")
	defer src.End()
	p := d.admin
	files := d.listSpecFiles()
	dirs := d.existingDirs()
	missing := d.missingDirs()
	for try := 0; try < 4; try++ {
		switch src.Pick(4, 3, 3, 3, 2, 2, 1, 1, 1) {
		case 0: // create a file in place
			if len(dirs) == 0 {
				continue
			}
			dir := dirs[src.Intn(len(dirs))]
			name := specNames[src.Intn(len(specNames))]
			if src.Bool(1, 6) {
				name = otherNames[src.Intn(len(otherNames))]
			}
			m := d.genContent(name)
			d.writeFile(dir+"/"+name, m.Content)
			d.r.Notef("write %s/%s = %s", dir, name, m)
			return
		case 1: // rewrite an existing file with a new revision or other content
			if len(files) == 0 {
				continue
			}
			f := files[src.Intn(len(files))]
			e, _ := d.w.FS.Lookup(f)
			old := d.reg.Lookup(e.Data)
			var m *gen.Meta
			if old != nil && old.Valid && src.Bool(2, 3) {
				m = d.reg.Revise(src, old, d.opts)
			} else {
				m = d.genContent(f)
			}
			d.writeFile(f, m.Content)
			d.r.Notef("rewrite %s = %s", f, m)
			return
		case 2: // replace by temp + rename
			if len(dirs) == 0 {
				continue
			}
			dir := dirs[src.Intn(len(dirs))]
			name := specNames[src.Intn(len(specNames))]
			m := d.genContent(name)
			tmp := fmt.Sprintf("%s/.tmp%d", dir, d.w.FS.NextTemp())
			p.WriteFile(tmp, m.Content, 0o600)
			p.Rename(memfs.AT_FDCWD, tmp, memfs.AT_FDCWD, dir+"/"+name, 0)
			d.r.Notef("replace %s/%s (temp+rename) = %s", dir, name, m)
			return
		case 3: // remove a file
			if len(files) == 0 {
				continue
			}
			f := files[src.Intn(len(files))]
			p.Unlink(memfs.AT_FDCWD, f)
			d.r.Notef("remove %s", f)
			return
		case 4: // rename inside its directory (to a Spec name or a non-Spec name)
			if len(files) == 0 {
				continue
			}
			f := files[src.Intn(len(files))]
			name := specNames[src.Intn(len(specNames))]
			if src.Bool(1, 3) {
				name = otherNames[src.Intn(len(otherNames))]
			}
			to := filepath.Dir(f) + "/" + name
			p.Rename(memfs.AT_FDCWD, f, memfs.AT_FDCWD, to, 0)
			d.r.Notef("rename %s -> %s", f, to)
			return
		case 5: // move between directories (or in from a staging directory)
			if len(dirs) == 0 {
				continue
			}
			dir := dirs[src.Intn(len(dirs))]
			name := specNames[src.Intn(len(specNames))]
			if len(files) > 0 && src.Bool(1, 2) {
				f := files[src.Intn(len(files))]
				p.Rename(memfs.AT_FDCWD, f, memfs.AT_FDCWD, dir+"/"+name, 0)
				d.r.Notef("move %s -> %s/%s", f, dir, name)
				return
			}
			m := d.genContent(name)
			p.MkdirAll("/staging", 0o755)
			st := fmt.Sprintf("/staging/s%d", d.w.FS.NextTemp())
			p.WriteFile(st, m.Content, 0o644)
			p.Rename(memfs.AT_FDCWD, st, memfs.AT_FDCWD, dir+"/"+name, 0)
			d.r.Notef("move in %s/%s = %s", dir, name, m)
			return
		case 6: // create a missing configured directory (and maybe a file in it)
			if len(missing) == 0 {
				continue
			}
			dir := missing[src.Intn(len(missing))]
			p.MkdirAll(dir, 0o755)
			d.r.Notef("mkdir %s", dir)
			if src.Bool(1, 2) {
				name := specNames[src.Intn(len(specNames))]
				m := d.genContent(name)
				d.writeFile(dir+"/"+name, m.Content)
				d.r.Notef("write %s/%s = %s", dir, name, m)
			}
			return
		case 7: // remove a configured directory with its content
			if len(dirs) == 0 {
				continue
			}
			dir := dirs[src.Intn(len(dirs))]
			p.RemoveAll(dir)
			d.r.Notef("rm -r %s", dir)
			return
		case 8: // a subdirectory with a Spec name holding a valid Spec (must be ignored)
			if len(dirs) == 0 {
				continue
			}
			dir := dirs[src.Intn(len(dirs))]
			sub := dir + "/sub.yaml"
			if p.Mkdir(sub, 0o755) == 0 {
				m := d.reg.Valid(src, false, d.opts)
				p.WriteFile(sub+"/inner.yaml", m.Content, 0o644)
				d.r.Notef("mkdir %s with inner.yaml = %s", sub, m)
				return
			}
		}
	}
}

func dirmodel(r *core.Run, cfg dmConfig) {
	src := r.Src
	drawMapOrder(r)
	auto := src.Bool(1, 2)
	cred := memfs.Cred{}
	transientDen := 0
	concurrent := false
	if cfg.faults {
		auto = src.Bool(1, 3)
		if src.Bool(2, 3) {
			cred = memfs.Cred{UID: 1000, GID: 1000}
		}
		transientDen = []int{0, 0, 30, 10}[src.Intn(4)]
		if auto {
			// In auto-refresh mode an explicit Refresh() does not rescan, so the
			// error entry left by a transient system-call failure legitimately
			// stays until the next directory change; the "repair at the next
			// refresh" oracle is only defined in manual mode.
			transientDen = 0
		}
		// (the concurrent mutator is manual-mode only for the same reason; the
		// auto-mode interplay of mutations and the watcher is C11's subject)
		concurrent = !auto && src.Bool(1, 4)
		r.Knob("uid", cred.UID)
		r.Knob("transient_fault_den", transientDen)
		r.Knob("concurrent_mutator", concurrent)
	}
	r.Knob("auto_refresh", auto)
	// scale: one run in thirty has a CROWDED directory (130-250 entries, up to
	// half of them failing Spec files, a few non-Spec names in between): code
	// that reads directories in batches, caps a list or a report, or pre-sizes
	// a buffer behaves differently only there
	crowded := src.Bool(1, 30)
	maxSteps := 0
	if crowded {
		maxSteps = 600000
		r.Knob("crowded_directory", true)
	}
	e := newEnv(r, sched.Config{SwitchDen: 1 + src.Intn(3), MaxSteps: maxSteps}, cred)
	if src.Bool(1, 3) {
		// coarse file time stamps: everything written in one run has the same modification time
		e.w.FS.MtimeGranularity = 1 << 20
		r.Knob("coarse_mtime", true)
	}
	d := &dm{env: e, cfg: cfg, auto: auto, transientDen: transientDen, concurrent: concurrent}
	if src.Bool(1, 2) {
		// one kind, two device names: most files define the same devices, so
		// precedence, shadowing and conflicts are the rule rather than the exception
		d.opts = gen.Opts{Vendors: []string{"vendor.com"}, Classes: []string{"gpu"}, DevNames: []string{"dev0", "dev1"}}
		r.Knob("narrow_names", true)
	}
	// directory list
	src.Begin("dirs")
	n := 1 + src.Intn(4)
	if !cfg.faults && src.Bool(1, 12) {
		n = 0 // an empty directory list (C01): nothing may resolve, nothing may be reported
	}
	for i := 0; i < n; i++ {
		if i > 0 && src.Bool(1, 6) {
			d.dirs = append(d.dirs, d.dirs[src.Intn(len(d.dirs))]) // listed twice
			continue
		}
		d.dirs = append(d.dirs, dirPool[src.Intn(len(dirPool))])
	}
	src.End()
	r.Notef("dirs %v auto=%v uid=%d", d.dirs, auto, cred.UID)
	// initial population
	src.Begin("populate")
	seen := map[string]bool{}
	for _, dir := range d.dirs {
		if seen[dir] {
			continue
		}
		seen[dir] = true
		if src.Bool(1, 4) {
			r.Notef("%s missing", dir)
			continue
		}
		e.admin.MkdirAll(dir, 0o755)
	}
	np := src.Intn(7)
	for i := 0; i < np; i++ {
		d.anyChange()
	}
	if dirs := d.existingDirs(); crowded && len(dirs) > 0 {
		dir := dirs[src.Intn(len(dirs))]
		n := 130 + src.Intn(121)
		badDen := []int{8, 2}[src.Intn(2)]
		for i := 0; i < n; i++ {
			name := fmt.Sprintf("c%03d%s", i, []string{".json", ".yaml"}[i%2])
			switch {
			case i%41 == 7:
				// (a registered content: a later rename may give the file a Spec name)
				d.writeFile(fmt.Sprintf("%s/c%03d.txt", dir, i), d.reg.Invalid(src, "garbage").Content)
				continue
			case i%97 == 50:
				e.admin.MkdirAll(fmt.Sprintf("%s/c%03d.d", dir, i), 0o755)
				continue
			}
			var m *gen.Meta
			if src.Bool(1, badDen) {
				m = d.reg.Invalid(src, "")
			} else {
				m = d.reg.Valid(src, i%2 == 0, gen.Opts{Vendors: []string{fmt.Sprintf("v%03d.org", i)}})
			}
			d.writeFile(dir+"/"+name, m.Content)
		}
		r.Notef("crowded: %d entries written to %s (one in %d invalid)", n, dir, badDen)
		r.Probe("crowded_directory")
	}
	src.End()
	// create the cache; the directories are sometimes given in a spelling that is not clean
	given := uncleanDirs(src, d.dirs)
	if fmt.Sprint(given) != fmt.Sprint(d.dirs) {
		r.Notef("directories given as %q", given)
	}
	e.do("NewCache", func() {
		c, _ := cdi.NewCache(cdi.WithSpecDirs(given...), cdi.WithAutoRefresh(auto))
		e.cache = c
	})
	d.refreshPoint("initial")
	steps := 1 + src.Intn(8)
	if r.Tier == "thorough" && src.Bool(1, 3) {
		steps = 8 + src.Intn(17) // deeper histories in the thorough tier
	}
	for s := 0; s < steps; s++ {
		src.Begin("step")
		k := 1 + src.Intn(3)
		for i := 0; i < k; i++ {
			d.anyChange()
		}
		d.refreshPoint(fmt.Sprintf("step %d", s+1))
		src.End()
	}
	r.Trivial = false
}

// uncleanDirs returns the directory list in spellings that filepath.Clean maps
// back to the given ones ("/etc/cdi/", "/etc//cdi", "/etc/./cdi", "/etc/cdi/../cdi").
func uncleanDirs(src interface {
	Bool(int, int) bool
	Intn(int) int
}, dirs []string) []string {
	out := append([]string(nil), dirs...)
	if !src.Bool(1, 4) {
		return out
	}
	for i, d := range out {
		base := filepath.Base(d)
		parent := filepath.Dir(d)
		switch src.Intn(5) {
		case 1:
			out[i] = d + "/"
		case 2:
			out[i] = parent + "//" + base
		case 3:
			out[i] = parent + "/./" + base
		case 4:
			out[i] = d + "/../" + base
		}
	}
	return out
}

func (d *dm) anyChange() {
	if d.cfg.faults && d.r.Src.Bool(1, 2) {
		d.faultChange()
		return
	}
	d.change()
}

// refreshPoint: manual mode Refresh(); auto mode run to quiescence, then
// Refresh(); then compare with the model.  In the fault configuration the
// Refresh may meet transient faults and a concurrent mutator; it is then
// followed by a clean Refresh that must repair everything.
func (d *dm) refreshPoint(where string) {
	e := d.env
	if d.auto {
		e.w.Quiesce()
		e.r.CheckHealth(where)
	}
	faulty := d.transientDen > 0 || d.concurrent
	if faulty {
		d.refreshAndCheck(where+" (faulty refresh)", true)
	}
	d.refreshAndCheck(where, false)
}

func (d *dm) refreshAndCheck(where string, faulty bool) {
	e := d.env
	tr := &scanTracker{d: d, cur: -1, ov: model.Overrides{DirDown: map[int]bool{}, FileDown: map[string]bool{}}, mayErr: map[string]bool{}}
	var refreshErr error
	histFrom := len(e.w.FS.Hist)
	before := e.w.FS.Snapshot("/")
	t := e.w.Spawn(e.app, "Refresh", func() { refreshErr = e.cache.Refresh() })
	var mut *sched.Task
	if faulty {
		tr.task, tr.active, tr.budget, tr.den = t, d.transientDen > 0, 2, d.transientDen
		e.w.OnOp = tr.onOp
		e.w.Policy = tr.policy
		if d.concurrent {
			mut = e.w.Spawn(e.w.NewProc("admin2", memfs.Cred{}), "mutator", func() {
				e.w.Yield(&sched.Op{Kind: "mutate", Path: ""})
				d.anyChange()
			})
		}
	}
	e.w.Run(func() bool { return t.Done && (mut == nil || mut.Done) })
	e.w.Join(t)
	if mut != nil {
		e.w.Join(mut)
	}
	e.w.OnOp, e.w.Policy = nil, nil
	e.r.CheckHealth(where)
	if !t.Done {
		e.r.Failf("hang", t.PendingKind(), "%s: Refresh cannot finish (blocked on %s)", where, t.PendingKind())
	}
	if d.auto {
		e.w.Quiesce()
		e.r.CheckHealth(where)
	}
	opts := CheckOpts{Where: where, DirKeys: map[string]bool{}}
	if mut != nil {
		// everything the mutator touched inside the scan window may be seen in either revision
		opts.TolNames, opts.TolPaths = map[string]bool{}, map[string]bool{}
		after := e.w.FS.Snapshot("/")
		touch := func(p string) {
			if p == "" {
				return
			}
			for _, snap := range []map[string]memfs.Entry{before, after} {
				for q, ent := range snap {
					if q == p || strings.HasPrefix(q, p+"/") || strings.HasPrefix(p, q+"/") {
						opts.TolPaths[q] = true
						if m := e.reg.Lookup(ent.Data); m != nil && m.Valid {
							for _, qn := range m.Qualified() {
								opts.TolNames[qn] = true
							}
						}
						if ent.Mode&memfs.S_IFMT == memfs.S_IFLNK {
							// symlinked content: be generous, tolerate every name of every registered content it may point to
							if te, ok := snap[ent.Target]; ok {
								if m := e.reg.Lookup(te.Data); m != nil && m.Valid {
									for _, qn := range m.Qualified() {
										opts.TolNames[qn] = true
									}
								}
							}
						}
					}
				}
			}
			opts.TolPaths[p] = true
		}
		for _, h := range e.w.FS.Hist[histFrom:] {
			if h.Mutating && h.Proc != e.app.Name {
				touch(h.Path)
				touch(h.Path2)
				if h.Op == "write" || strings.Contains(h.Op, "trunc") {
					// modified in place while the scan may be reading it: a torn read
					for i, dir := range d.dirs {
						if filepath.Dir(h.Path) == dir {
							if opts.TornPaths == nil {
								opts.TornPaths = map[string]int{}
							}
							if i >= opts.TornPaths[h.Path] {
								opts.TornPaths[h.Path] = i
							}
							e.r.Probe("in_place_write_inside_scan_window")
						}
					}
				}
			}
		}
		if len(opts.TolPaths) > 0 {
			e.r.Probe("mutation_inside_scan_window")
		}
	}
	if tr.fired > 0 {
		e.r.Probe("transient_fault_in_refresh")
	}
	truth := model.ObserveWith(e.w.FS, d.dirs, e.reg, e.app.Cred, tr.ov)
	// An error entry keyed by a configured directory is allowed only while the
	// directory has a problem: in manual mode when it exists but cannot be
	// scanned, in auto mode also when it is missing (it cannot be watched).
	// An entry for a healthy directory is a stale entry: its cause is gone.
	for i, dir := range d.dirs {
		st := truth.DirState[i]
		if st == "ok" || (st == "missing" && !d.auto) {
			continue
		}
		opts.DirKeys[dir] = true
	}
	if mut != nil {
		for _, dir := range d.dirs {
			opts.DirKeys[dir] = true
		}
	}
	var probe []string
	for q := range truth.Defined() {
		probe = append(probe, q)
	}
	probe = append(probe, "vendor.com/gpu=nosuch", "nosuch.org/x=dev0")
	var v *View
	e.do("Query", func() { v = Query(e.cache, probe) })
	e.r.State(e.w.FS.Digest("/") + fmt.Sprint(v.Devices))
	unscannable := truth.UnscannableDirs()
	// a file whose devices collide with a revision of a file the mutator touched
	// inside the scan window may carry a conflict error for that scan
	conflictWithTouched := map[string]bool{}
	if len(opts.TolNames) > 0 {
		for _, f := range truth.Files {
			if f.State != "valid" {
				continue
			}
			for _, q := range f.Meta.Qualified() {
				if opts.TolNames[q] {
					conflictWithTouched[f.Path] = true
				}
			}
		}
	}
	opts.MayErr = func(p string) bool {
		if tr.mayErr[p] || conflictWithTouched[p] {
			return true
		}
		for _, u := range unscannable {
			if p == u {
				return true
			}
			// below a directory that cannot be scanned properly only Spec-named
			// files may be reported; everything else is to be ignored
			if ext := filepath.Ext(p); strings.HasPrefix(p, u+"/") && (ext == ".json" || ext == ".yaml") {
				return true
			}
		}
		return false
	}
	if d.auto && tr.fired > 0 {
		// in auto mode an explicit Refresh() only reports; the faulty scan may not have happened at all
		opts.SkipErrors = true
	}
	rule, sig, msg := CompareTruth(v, truth, opts)
	if rule != "" {
		e.r.Failf(rule, sig, "%s", msg)
	}
	// Refresh() result: non-nil iff some Spec file is in error; nil when all is well.
	// In auto mode the call comes after quiescence and reports the errors of the
	// watcher's last refresh, so the same holds.
	if len(opts.TolPaths) == 0 && !opts.SkipErrors {
		must := truth.MustErr()
		may := truth.ConflictParticipants()
		if len(must) > 0 && refreshErr == nil {
			e.r.Failf("refresh-result", "nil-despite-errors", "%s: Refresh() returned nil although %v are failing Spec files", where, sortedKeys(must))
		}
		if len(must) == 0 && len(may) == 0 && truth.AllDirsReadableOrAbsent() && tr.fired == 0 && refreshErr != nil {
			e.r.Failf("refresh-result", "error-without-cause", "%s: Refresh() returned %v although every directory is readable or absent, every Spec file is valid and there is no conflict", where, refreshErr)
		}
	}
}

// ---- C13: fault states, transient faults, repairs ------------------------------------

// faultChange introduces or repairs one fault state, as root.
func (d *dm) faultChange() {
	src := d.r.Src
	src.Begin("fault-change")
	defer src.End()
	p := d.admin
	files := d.listSpecFiles()
	dirs := d.existingDirs()
	uniq := map[string]bool{}
	var all []string
	for _, x := range d.dirs {
		if !uniq[x] {
			uniq[x] = true
			all = append(all, x)
		}
	}
	// In auto-refresh mode only changes that raise an event in a watched
	// directory are drawn: permission changes and writes through a symlink
	// that leaves the directory are outside what a watcher can notice (and
	// outside the change kinds the properties list).
	wChmodFile, wChmodDir, wAnc := 2, 2, 2
	if d.auto {
		wChmodFile, wChmodDir, wAnc = 0, 0, 0
	}
	for try := 0; try < 4; try++ {
		switch src.Pick(3, wChmodFile, 2, wChmodDir, 1, 2, 2, wAnc, 2, 3) {
		case 0: // an invalid file of a drawn kind
			if len(dirs) == 0 {
				continue
			}
			dir := dirs[src.Intn(len(dirs))]
			name := specNames[src.Intn(len(specNames))]
			m := d.reg.Invalid(src, "")
			d.writeFile(dir+"/"+name, m.Content)
			d.r.Notef("write %s/%s = %s", dir, name, m)
			return
		case 1: // make a file unreadable / readable again
			if len(files) == 0 {
				continue
			}
			f := files[src.Intn(len(files))]
			e, _ := d.w.FS.Lookup(f)
			if e.Mode&0o444 == 0 {
				p.Chmod(f, 0o644)
				d.r.Notef("chmod 644 %s", f)
			} else {
				p.Chmod(f, 0)
				d.r.Notef("chmod 000 %s", f)
			}
			return
		case 2: // dangling symlink, symlink loop, symlink to a directory, symlink to a valid file elsewhere
			if len(dirs) == 0 {
				continue
			}
			dir := dirs[src.Intn(len(dirs))]
			name := specNames[src.Intn(len(specNames))]
			path := dir + "/" + name
			p.Unlink(memfs.AT_FDCWD, path)
			nk := 4
			if d.auto {
				nk = 3
			}
			switch src.Intn(nk) {
			case 0:
				p.Symlink("/nonexistent/target.json", path)
				d.r.Notef("symlink %s -> dangling", path)
			case 1:
				p.Symlink(name, path)
				d.r.Notef("symlink %s -> itself (loop)", path)
			case 2:
				p.MkdirAll("/staging/adir", 0o755)
				p.Symlink("/staging/adir", path)
				d.r.Notef("symlink %s -> a directory", path)
			case 3:
				m := d.reg.Valid(src, strings.HasSuffix(name, ".json"), d.opts)
				p.MkdirAll("/staging", 0o755)
				t := fmt.Sprintf("/staging/t%d", d.w.FS.NextTemp())
				p.WriteFile(t, m.Content, 0o644)
				p.Symlink(t, path)
				d.r.Notef("symlink %s -> %s = %s", path, t, m)
			}
			return
		case 3: // directory permission faults and their repair
			if len(dirs) == 0 {
				continue
			}
			dir := dirs[src.Intn(len(dirs))]
			e, _ := d.w.FS.Lookup(dir)
			switch {
			case e.Mode&0o777 != 0o755:
				p.Chmod(dir, 0o755)
				d.r.Notef("chmod 755 %s", dir)
			case src.Bool(1, 2):
				p.Chmod(dir, 0)
				d.r.Notef("chmod 000 %s", dir)
			default:
				p.Chmod(dir, 0o444)
				d.r.Notef("chmod 444 %s (listable, not searchable)", dir)
			}
			return
		case 4: // a configured directory path becomes a regular file
			dir := all[src.Intn(len(all))]
			p.RemoveAll(dir)
			p.MkdirAll(filepath.Dir(dir), 0o755)
			p.WriteFile(dir, []byte("not a directory\n"), 0o644)
			d.r.Notef("%s replaced by a regular file", dir)
			return
		case 5: // an ancestor of a configured directory becomes a regular file
			dir := all[src.Intn(len(all))]
			anc := filepath.Dir(dir)
			if anc == "/" || uniq[anc] {
				continue
			}
			p.RemoveAll(anc)
			p.MkdirAll(filepath.Dir(anc), 0o755)
			p.WriteFile(anc, []byte("not a directory\n"), 0o644)
			d.r.Notef("%s (ancestor of %s) replaced by a regular file", anc, dir)
			return
		case 6: // repair a directory that is missing / not a directory / below a non-directory
			dir := all[src.Intn(len(all))]
			cur := ""
			for _, c := range strings.Split(strings.Trim(dir, "/"), "/") {
				cur += "/" + c
				if e, ok := d.w.FS.Lookup(cur); ok && e.Mode&memfs.S_IFMT != memfs.S_IFDIR {
					p.Unlink(memfs.AT_FDCWD, cur)
				}
			}
			p.MkdirAll(dir, 0o755)
			p.Chmod(dir, 0o755)
			d.r.Notef("repair directory %s", dir)
			return
		case 7: // an ancestor loses search permission / gets it back
			dir := all[src.Intn(len(all))]
			anc := filepath.Dir(dir)
			if anc == "/" {
				continue
			}
			e, ok := d.w.FS.Lookup(anc)
			if !ok || e.Mode&memfs.S_IFMT != memfs.S_IFDIR {
				continue
			}
			if e.Mode&0o111 == 0 {
				p.Chmod(anc, 0o755)
				d.r.Notef("chmod 755 %s", anc)
			} else {
				p.Chmod(anc, 0o644)
				d.r.Notef("chmod 644 %s (ancestor of %s not searchable)", anc, dir)
			}
			return
		case 8: // remove a faulty or healthy file
			if len(files) == 0 {
				continue
			}
			f := files[src.Intn(len(files))]
			p.Unlink(memfs.AT_FDCWD, f)
			d.r.Notef("remove %s", f)
			return
		default:
			d.change()
			return
		}
	}
}

// scanTracker follows the system calls of one Refresh to learn which
// directory index the scanner is in, and which of its calls were failed by
// the simulator.
type scanTracker struct {
	d      *dm
	task   *sched.Task
	next   int
	cur    int
	ov     model.Overrides
	mayErr map[string]bool
	fired  int
	budget int
	den    int
	active bool
}

func (s *scanTracker) onOp(t *sched.Task, op *sched.Op, dec sched.Decision) {
	if !s.active || t != s.task {
		return
	}
	if op.Kind == "lstat" && s.next < len(s.d.dirs) && op.Path == s.d.dirs[s.next] {
		s.cur = s.next
		s.next++
	}
	if dec.Err == 0 {
		return
	}
	s.fired++
	if s.cur < 0 {
		return
	}
	dir := s.d.dirs[s.cur]
	switch {
	case op.Path == dir:
		s.ov.DirDown[s.cur] = true
	case op.Kind == "fstat":
		// only a size hint for the read buffer: no effect
	default:
		s.ov.FileDown[fmt.Sprintf("%d:%s", s.cur, op.Path)] = true
		s.mayErr[op.Path] = true
	}
}

func (s *scanTracker) policy(t *sched.Task, op *sched.Op) sched.Decision {
	if !s.active || t != s.task || s.fired >= s.budget {
		return sched.Decision{}
	}
	switch op.Kind {
	case "lstat", "open", "getdents", "read", "fstat":
	default:
		return sched.Decision{}
	}
	src := s.d.r.Src
	if len(op.Faults) == 0 || !src.Bool(1, s.den) {
		return sched.Decision{}
	}
	return sched.Decision{Err: op.Faults[src.Intn(len(op.Faults))]}
}

// ---- C13: enumerated sweep of single fault placements ------------------------------------

var c13DirFaults = []string{"missing", "notdir", "enotdir", "unreadable", "unsearchable", "ancestor-unsearchable"}
var c13FileFaults = append(append([]string(nil), gen.Defects...), "unreadable", "dangling", "loop", "dirlink")

func init() {
	All["c13"] = func(r *core.Run) {
		if r.Src.Intn(2) == 1 {
			c13Sweep(r)
			return
		}
		dirmodel(r, dmConfig{faults: true})
	}
	core.Enumerations["c13"] = func() [][]uint32 {
		var out [][]uint32
		nk := len(c13DirFaults) + len(c13FileFaults)
		for kind := 0; kind < nk; kind++ {
			for pos := 0; pos < 3; pos++ {
				for uid := 0; uid < 2; uid++ {
					for auto := 0; auto < 2; auto++ {
						out = append(out, []uint32{1, uint32(kind), uint32(pos), uint32(uid), uint32(auto)})
					}
				}
			}
		}
		return out
	}
}

// c13Sweep places exactly one fault (every kind of bad directory or bad file)
// at every position of a three-directory list whose other directories hold
// valid files - one device is defined in all three - checks isolation,
// reporting and the Refresh() result, then repairs the fault and checks that
// its entry is gone at the next refresh.
func c13Sweep(r *core.Run) {
	src := r.Src
	nk := len(c13DirFaults) + len(c13FileFaults)
	kind := src.Intn(nk)
	pos := src.Intn(3)
	uid := src.Intn(2)
	auto := src.Intn(2) == 1
	cred := memfs.Cred{}
	if uid == 1 {
		cred = memfs.Cred{UID: 1000, GID: 1000}
	}
	fault := ""
	isDir := kind < len(c13DirFaults)
	if isDir {
		fault = c13DirFaults[kind]
	} else {
		fault = c13FileFaults[kind-len(c13DirFaults)]
	}
	if auto && (fault == "unreadable" || fault == "unsearchable" || fault == "ancestor-unsearchable") {
		auto = false // permission changes raise no event a watcher could see (corrections log)
	}
	r.Knob("mode", "sweep")
	r.Knob("auto_refresh", auto)
	e := newEnv(r, sched.Config{SwitchDen: 4}, cred)
	d := &dm{env: e, cfg: dmConfig{faults: true}, auto: auto}
	d.dirs = []string{"/etc/cdi", "/run/cdi", "/opt/vendor/cdi"}
	r.Notef("sweep: fault %q at position %d of %v, uid %d, auto=%v", fault, pos, d.dirs, cred.UID, auto)
	p := e.admin
	for i, dir := range d.dirs {
		p.MkdirAll(dir, 0o755)
		own := e.reg.Valid(src, true, gen.Opts{Vendors: []string{fmt.Sprintf("v%d.com", i)}, Classes: []string{"gpu"}, DevNames: []string{"own"}, MaxDevs: 1})
		p.WriteFile(dir+"/own.json", own.Content, 0o644)
		shared := e.reg.Valid(src, false, gen.Opts{Vendors: []string{"shared.org"}, Classes: []string{"net"}, DevNames: []string{"dev0"}, MaxDevs: 1})
		p.WriteFile(dir+"/shared.yaml", shared.Content, 0o644)
	}
	bad := d.dirs[pos]
	badFile := bad + "/bad.json"
	var repair func()
	switch fault {
	case "missing":
		p.RemoveAll(bad)
		repair = func() { p.MkdirAll(bad, 0o755) }
	case "notdir":
		p.RemoveAll(bad)
		p.WriteFile(bad, []byte("x"), 0o644)
		repair = func() { p.Unlink(memfs.AT_FDCWD, bad); p.MkdirAll(bad, 0o755) }
	case "enotdir":
		anc := filepath.Dir(bad)
		p.RemoveAll(anc)
		p.WriteFile(anc, []byte("x"), 0o644)
		repair = func() { p.Unlink(memfs.AT_FDCWD, anc); p.MkdirAll(bad, 0o755) }
	case "unreadable":
		if isDir {
			p.Chmod(bad, 0)
			repair = func() { p.Chmod(bad, 0o755) }
		} else {
			m := e.reg.Valid(src, true, gen.Opts{Vendors: []string{"bad.io"}, Classes: []string{"x"}, DevNames: []string{"d"}, MaxDevs: 1})
			p.WriteFile(badFile, m.Content, 0o644)
			p.Chmod(badFile, 0)
			repair = func() { p.Chmod(badFile, 0o644) }
		}
	case "unsearchable":
		p.Chmod(bad, 0o444)
		repair = func() { p.Chmod(bad, 0o755) }
	case "ancestor-unsearchable":
		anc := filepath.Dir(bad)
		p.Chmod(anc, 0o644)
		repair = func() { p.Chmod(anc, 0o755) }
	case "dangling":
		p.Symlink("/nonexistent/x.json", badFile)
		repair = func() { p.Unlink(memfs.AT_FDCWD, badFile) }
	case "loop":
		p.Symlink("bad.json", badFile)
		repair = func() { p.Unlink(memfs.AT_FDCWD, badFile) }
	case "dirlink":
		p.MkdirAll("/staging/adir", 0o755)
		p.Symlink("/staging/adir", badFile)
		repair = func() { p.Unlink(memfs.AT_FDCWD, badFile) }
	default: // an invalid file of this kind
		m := e.reg.Invalid(src, fault)
		p.WriteFile(badFile, m.Content, 0o644)
		repair = func() { p.Unlink(memfs.AT_FDCWD, badFile) }
	}
	e.do("NewCache", func() {
		c, _ := cdi.NewCache(cdi.WithSpecDirs(d.dirs...), cdi.WithAutoRefresh(auto))
		e.cache = c
	})
	d.refreshPoint("with the fault in place")
	repair()
	r.Notef("repaired")
	d.refreshPoint("after the repair")
	r.State(fmt.Sprintf("sweep|%s|%d|%d|%v", fault, pos, uid, auto))
}
