package scen

import (
	"encoding/json"
	"fmt"
	"os"
	"path/filepath"
	"sort"
	"strings"

	"tags.cncf.io/container-device-interface/pkg/cdi"
	specs "tags.cncf.io/container-device-interface/specs-go"
	"verif/sim/memfs"
	"verif/sim/sched"
	"verif/sim/simos"
	"verifharness/core"
	"verifharness/gen"
)

func init() {
	All["c10"] = c10
	core.Enumerations["c10"] = c10Sweep
}

const (
	c10Scens   = 18
	c10Points  = 40
	c10Actions = 7
	c10Offsets = 4
)

// c10Sweep enumerates the complete single-fault sweep: every scenario x every
// system call index of the writer x {kill, every errno of the call's menu} x
// every write offset class.
func c10Sweep() [][]uint32 {
	var out [][]uint32
	for sc := 0; sc < c10Scens; sc++ {
		for pt := 0; pt < c10Points; pt++ {
			for ac := 0; ac < c10Actions; ac++ {
				for off := 0; off < c10Offsets; off++ {
					if pt == 0 && (ac > 0 || off > 0) {
						continue
					}
					out = append(out, []uint32{1, uint32(sc), uint32(pt), uint32(ac), uint32(off)})
				}
			}
		}
	}
	return out
}

func c10Spec(tag string, devs ...string) *specs.Spec {
	s := &specs.Spec{Version: "0.6.0", Kind: "vendor.com/gpu"}
	for _, d := range devs {
		s.Devices = append(s.Devices, specs.Device{Name: d, ContainerEdits: specs.ContainerEdits{Env: []string{"CDI_SIM=" + tag + "." + d}}})
	}
	return s
}

func specImage(s *specs.Spec) string {
	b, _ := json.Marshal(s)
	return string(b)
}

type c10State struct {
	r       *core.Run
	e       *env
	D       string
	target  string
	admiss  map[string]string            // JSON image -> label, for the target
	allowed map[string]map[string]string // path -> admissible images (bystanders)
	hadOld  bool
	parsed  map[string]string   // content -> image ("" = not loadable)
	devsOf  map[string][]string // image -> "name=marker" list
	badSeen string
}

func (st *c10State) imageOf(content string) string {
	if img, ok := st.parsed[content]; ok {
		return img
	}
	img := ""
	if raw, err := cdi.ParseSpec([]byte(content)); err == nil && raw != nil {
		img = specImage(raw)
	}
	st.parsed[content] = img
	return img
}

// instant is the omniscient invariant, evaluated after every scheduler step.
func (st *c10State) instant() {
	if st.r.Viol != nil || st.badSeen != "" {
		return
	}
	snap := st.e.w.FS.Snapshot(st.D)
	for p, ent := range snap {
		if filepath.Dir(p) != st.D || ent.Mode&memfs.S_IFMT == memfs.S_IFDIR {
			continue
		}
		ext := filepath.Ext(p)
		if ext != ".json" && ext != ".yaml" {
			continue
		}
		ok := false
		if p == st.target {
			_, ok = st.admiss[st.imageOf(ent.Data)]
		} else if al, has := st.allowed[p]; has {
			_, ok = al[st.imageOf(ent.Data)]
		} else {
			st.badSeen = fmt.Sprintf("unexpected-spec-name|at step %d a file %s with a Spec extension exists in %s (content %q): only %s may carry a Spec name", st.e.w.Step, p, st.D, clip(ent.Data), st.target)
			return
		}
		if !ok {
			st.badSeen = fmt.Sprintf("partial-content|at step %d the file %s holds %q, which is neither a complete previous nor a complete new Spec", st.e.w.Step, p, clip(ent.Data))
			return
		}
	}
}

func clip(s string) string {
	if len(s) > 160 {
		return s[:160] + "..."
	}
	return s
}

func (st *c10State) failIfBad() {
	if st.badSeen != "" {
		parts := strings.SplitN(st.badSeen, "|", 2)
		st.r.Failf("instant", parts[0], "%s", parts[1])
	}
}

// gpuView reads the vendor.com/gpu devices through a cache: one ListDevices
// call (names) and one GetDevice call per name (marker).
func gpuView(c *cdi.Cache) (names []string, markers map[string]string) {
	markers = map[string]string{}
	for _, n := range c.ListDevices() {
		if !strings.HasPrefix(n, "vendor.com/gpu=") {
			continue
		}
		names = append(names, n)
	}
	sort.Strings(names)
	for _, n := range names {
		if d := c.GetDevice(n); d != nil {
			markers[n] = markerOf(d.ContainerEdits.Env)
		} else {
			markers[n] = "<nil>"
		}
	}
	return names, markers
}

func gpuDevices(c *cdi.Cache) []string {
	names, markers := gpuView(c)
	var out []string
	for _, n := range names {
		out = append(out, n+"="+markers[n])
	}
	return out
}

func devsOfSpec(s *specs.Spec) string {
	var out []string
	for _, d := range s.Devices {
		out = append(out, s.Kind+"="+d.Name+"="+markerOf(d.ContainerEdits.Env))
	}
	sort.Strings(out)
	return strings.Join(out, ",")
}

func c10(r *core.Run) {
	src := r.Src
	sweep := src.Intn(2) == 1
	var scen, point, action, offIdx int
	if sweep {
		scen = src.Intn(c10Scens)
		point = src.Intn(c10Points)
		action = src.Intn(c10Actions)
		offIdx = src.Intn(c10Offsets)
	} else {
		scen = src.Intn(c10Scens)
	}
	enc := scen % 3
	prev := (scen / 3) % 3
	dMissing := scen/9 == 1
	if dMissing {
		prev = 0
	}
	r.Knob("mode", map[bool]string{true: "sweep", false: "search"}[sweep])
	drawMapOrder(r)
	e := newEnv(r, sched.Config{SwitchDen: 1 + src.Intn(4)}, memfs.Cred{})
	st := &c10State{r: r, e: e, D: "/run/cdi", admiss: map[string]string{}, allowed: map[string]map[string]string{}, parsed: map[string]string{}}
	name := "vendor.com-gpu" + []string{".json", ".yaml", ""}[enc]
	st.target = st.D + "/" + name
	if enc == 2 {
		st.target += ".yaml"
	}
	oldS := c10Spec("old", "dev0")
	newS := c10Spec("new", "dev0", "dev1", "dev2")
	new2S := c10Spec("new2", "dev0", "dev3")
	// size: one search run in sixteen writes a LARGE Spec (70-300 KiB of
	// Spec-level environment): write loops, buffering and chunking only differ there
	if !sweep && src.Bool(1, 16) {
		n := 1500 + src.Intn(5000)
		for i := 0; i < n; i++ {
			newS.ContainerEdits.Env = append(newS.ContainerEdits.Env, fmt.Sprintf("PAD_%05d=%040d", i, i))
		}
		r.Knob("large_spec_env_entries", n)
		r.Probe("large_spec")
	}
	if prev == 2 {
		oldS = newS // previous file identical to the new content
	}
	st.admiss[specImage(newS)] = "new"
	e.admin.MkdirAll("/etc/cdi", 0o755)
	if !dMissing {
		e.admin.MkdirAll(st.D, 0o755)
		by := c10Spec("by", "x")
		by.Kind = "acme.org/net"
		bp := st.D + "/other.json"
		e.admin.WriteFile(bp, gen.Encode(by, true), 0o644)
		st.allowed[bp] = map[string]string{specImage(by): "bystander"}
		if prev > 0 {
			e.admin.WriteFile(st.target, gen.Encode(oldS, enc == 0), 0o644)
			if prev != 2 {
				st.admiss[specImage(oldS)] = "old"
			}
			st.hadOld = true
		}
	}
	if !sweep && !dMissing && src.Bool(1, 4) {
		// the left-over of a writer that was killed an hour ago: a half-written
		// temporary file (never loadable: not a Spec name)
		stale := st.D + "/spec.4711.tmp"
		e.admin.WriteFile(stale, gen.Encode(newS, enc == 0)[:40], 0o600)
		e.admin.SetMtime(stale, -3600_000)
		r.Knob("stale_temp_file", true)
		r.Probe("stale_temp_file_of_an_earlier_crash")
	}
	r.Notef("scenario %d: target %s, previous=%v (identical=%v), directory missing=%v", scen, st.target, st.hadOld, prev == 2, dMissing)
	W := e.w.NewProc("writer", memfs.Cred{})
	R := e.w.NewProc("reader", memfs.Cred{})
	wAuto := !sweep && src.Bool(1, 3)
	var wc *cdi.Cache
	e.doIn(W, "W.NewCache", func() {
		wc, _ = cdi.NewCache(cdi.WithSpecDirs("/etc/cdi", st.D), cdi.WithAutoRefresh(wAuto))
	})
	e.w.OnStep = st.instant

	// ---- fault policy for the writer(s) ----
	wsys := 0
	fired := 0
	budget := 0
	den := 0
	killAt := -1
	chunkDen := 0
	closeErr := false
	if !sweep {
		budget = src.Intn(3)
		den = []int{6, 12, 24}[src.Intn(3)]
		if src.Bool(1, 3) {
			killAt = 1 + src.Intn(16)
		}
		if src.Bool(1, 3) {
			chunkDen = 3
		}
		closeErr = src.Bool(1, 3)
		r.Knob("fault_budget", budget)
		r.Knob("kill_at", killAt)
		r.Knob("chunked_writes", chunkDen > 0)
		r.Knob("deferred_close_errors", closeErr)
	}
	offsetOf := func(n, idx int) int {
		switch idx {
		case 0:
			return 0
		case 1:
			return 1
		case 2:
			return n / 2
		default:
			return n - 1
		}
	}
	e.w.Policy = func(t *sched.Task, op *sched.Op) sched.Decision {
		if t.Proc != W && t.Proc.Name != "writer2" {
			return sched.Decision{}
		}
		if !strings.HasPrefix(t.Name, "WriteSpec") {
			return sched.Decision{}
		}
		wsys++
		if sweep {
			if wsys != point {
				return sched.Decision{}
			}
			if action == 0 {
				return sched.Decision{Kill: true}
			}
			if action-1 >= len(op.Faults) {
				return sched.Decision{}
			}
			d := sched.Decision{Err: op.Faults[action-1]}
			switch op.Kind {
			case "write":
				if op.Len > 1 {
					d.Partial = offsetOf(op.Len, offIdx)
				}
			case "close":
				d.Late = true
				d.Partial = []int{1, 7, 40, 100000}[offIdx]
			}
			return d
		}
		if killAt > 0 && wsys == killAt {
			return sched.Decision{Kill: true}
		}
		if op.Kind == "write" && chunkDen > 0 && op.Len > 2 && src.Bool(1, chunkDen) {
			return sched.Decision{Partial: 1 + src.Intn(op.Len-1)} // short write, the runtime continues
		}
		if fired >= budget || len(op.Faults) == 0 || !src.Bool(1, den) {
			return sched.Decision{}
		}
		if op.Kind == "close" {
			if !closeErr {
				return sched.Decision{}
			}
			fired++
			return sched.Decision{Err: op.Faults[src.Intn(len(op.Faults))], Late: true, Partial: 1 + src.Intn(60)}
		}
		fired++
		d := sched.Decision{Err: op.Faults[src.Intn(len(op.Faults))]}
		if op.Kind == "write" && op.Len > 1 {
			d.Partial = src.Intn(op.Len)
		}
		return d
	}

	// ---- tasks ----
	var werr error
	wt := e.w.Spawn(W, "WriteSpec", func() { werr = wc.WriteSpec(newS, name) })
	tasks := []*sched.Task{wt}
	var w2t *sched.Task
	var w2err error
	readerViol := ""
	note := func(rule, format string, a ...any) {
		if readerViol == "" {
			readerViol = rule + "|" + fmt.Sprintf(format, a...)
		}
	}
	admissibleDevs := func() map[string]string {
		m := map[string]string{}
		for img, label := range st.admiss {
			var s specs.Spec
			_ = json.Unmarshal([]byte(img), &s)
			m[devsOfSpec(&s)] = label
		}
		if !st.hadOld {
			m[""] = "nothing"
		}
		return m
	}
	if !sweep {
		if src.Bool(1, 4) {
			W2 := e.w.NewProc("writer2", memfs.Cred{})
			st.admiss[specImage(new2S)] = "new2"
			var wc2 *cdi.Cache
			e.doIn(W2, "W2.NewCache", func() {
				wc2, _ = cdi.NewCache(cdi.WithSpecDirs(st.D), cdi.WithAutoRefresh(false))
			})
			w2t = e.w.Spawn(W2, "WriteSpec2", func() { w2err = wc2.WriteSpec(new2S, name) })
			tasks = append(tasks, w2t)
			r.Knob("second_writer", true)
		}
		adm := admissibleDevs()
		// R1: plain reader: list the directory, ReadSpec every Spec-named entry; also read the target directly
		if src.Bool(2, 3) {
			k := 1 + src.Intn(3)
			tasks = append(tasks, e.w.Spawn(R, "R1.reader", func() {
				for i := 0; i < k; i++ {
					if f, err := simos.Open(st.D); err == nil {
						names, _ := f.Readdirnames(-1)
						f.Close()
						sort.Strings(names)
						for _, n := range names {
							if ext := filepath.Ext(n); ext != ".json" && ext != ".yaml" {
								continue
							}
							p := st.D + "/" + n
							sp, err := cdi.ReadSpec(p, 0)
							if err != nil {
								note("reader/listed-file-not-loadable", "a reader listed %s and cdi.ReadSpec(%s) failed: %v", st.D, p, err)
								continue
							}
							if p == st.target {
								if _, ok := st.admiss[specImage(sp.Spec)]; !ok {
									note("reader/mixed-content", "cdi.ReadSpec(%s) returned a Spec that is neither the previous nor the new one: %s", p, specImage(sp.Spec))
								}
							}
						}
					}
					sp, err := cdi.ReadSpec(st.target, 0)
					switch {
					case err == nil:
						if _, ok := st.admiss[specImage(sp.Spec)]; !ok {
							note("reader/mixed-content", "cdi.ReadSpec(%s) returned a Spec that is neither the previous nor the new one: %s", st.target, specImage(sp.Spec))
						}
					case os.IsNotExist(err):
						if st.hadOld {
							note("reader/target-vanished", "cdi.ReadSpec(%s) found no file although a previous file existed before the write started", st.target)
						}
					default:
						note("reader/target-not-loadable", "cdi.ReadSpec(%s) failed: %v", st.target, err)
					}
				}
			}))
		}
		// name sets and per-device markers of every admissible content
		admNames := map[string]string{}
		admMarkers := map[string]bool{}
		for img, label := range st.admiss {
			var sp specs.Spec
			_ = json.Unmarshal([]byte(img), &sp)
			var ns []string
			for _, d := range sp.Devices {
				ns = append(ns, sp.Kind+"="+d.Name)
				admMarkers[sp.Kind+"="+d.Name+"="+markerOf(d.ContainerEdits.Env)] = true
			}
			sort.Strings(ns)
			admNames[strings.Join(ns, ",")] = label
		}
		if !st.hadOld {
			admNames[""] = "nothing"
		}
		// exclusive: only the calling task uses the cache and nothing refreshes it
		// in the background, so names and markers come from one state.
		checkCache := func(who string, c *cdi.Cache, exclusive bool) {
			if exclusive {
				devs := strings.Join(gpuDevices(c), ",")
				if _, ok := adm[devs]; !ok {
					note("reader/cache-mixture", "%s sees vendor.com/gpu devices [%s]: not the device set of the previous, the new, or no file (admissible: %v)", who, devs, adm)
				}
			} else {
				names, markers := gpuView(c)
				if _, ok := admNames[strings.Join(names, ",")]; !ok {
					note("reader/cache-mixture", "%s lists vendor.com/gpu devices %v in one call: not the device set of the previous, the new, or no file", who, names)
				}
				for n, m := range markers {
					if m != "<nil>" && !admMarkers[n+"="+m] {
						note("reader/cache-mixture", "%s returns for %s a definition (%s) that no complete file content ever held", who, n, m)
					}
				}
			}
			for k, errs := range c.GetErrors() {
				if ext := filepath.Ext(k); ext == ".json" || ext == ".yaml" || strings.Contains(k, "spec.") {
					note("reader/cache-error-entry", "%s has an error entry for %s: %v", who, k, errs)
				}
			}
		}
		if src.Bool(1, 2) {
			k := 1 + src.Intn(3)
			tasks = append(tasks, e.w.Spawn(R, "R2.manual", func() {
				c, _ := cdi.NewCache(cdi.WithSpecDirs(st.D), cdi.WithAutoRefresh(false))
				for i := 0; i < k; i++ {
					_ = c.Refresh()
					checkCache("a manually refreshed cache", c, true)
				}
			}))
		}
		if src.Bool(1, 2) {
			k := 1 + src.Intn(4)
			tasks = append(tasks, e.w.Spawn(R, "R3.auto", func() {
				c, _ := cdi.NewCache(cdi.WithSpecDirs(st.D), cdi.WithAutoRefresh(true))
				for i := 0; i < k; i++ {
					checkCache("an auto-refreshed cache", c, false)
				}
			}))
		}
	}
	e.w.Run(func() bool {
		if st.badSeen != "" || readerViol != "" {
			return true
		}
		for _, t := range tasks {
			if !t.Done {
				return false
			}
		}
		return true
	})
	st.failIfBad()
	if readerViol != "" {
		parts := strings.SplitN(readerViol, "|", 2)
		r.Failf(parts[0], "", "%s", parts[1])
	}
	r.CheckHealth("write")
	for _, t := range tasks {
		e.w.Join(t)
		if !t.Done {
			r.Failf("hang", t.PendingKind(), "task %s cannot finish (blocked on %s)", t.Name, t.PendingKind())
		}
	}
	e.w.Quiesce()
	st.failIfBad()
	r.CheckHealth("after the write")
	e.w.OnStep = nil
	e.w.Policy = nil
	killed := W.Killed
	for _, f := range e.w.Faults {
		if f.Kill && f.Op == "write" {
			r.Probe("kill_between_write_calls")
		}
		if f.Kill && f.Op == "rename" {
			r.Probe("kill_right_before_rename")
		}
	}
	r.Notef("WriteSpec -> %v (writer killed: %v, faults: %s)", werr, killed, e.w.FaultSummary())
	_ = w2err

	// ---- (c) after the end: a fresh scan of D ----
	renamed := false
	for _, h := range e.w.FS.Hist {
		if h.Op == "rename" && h.Err == 0 && h.Path2 == st.target && (h.Proc == "writer" || h.Proc == "writer2") {
			renamed = true
		}
	}
	ent, exists := e.w.FS.Lookup(st.target)
	img := ""
	if exists {
		img = st.imageOf(ent.Data)
	}
	label, ok := st.admiss[img]
	switch {
	case exists && !ok:
		r.Failf("final", "target-not-admissible", "after the write ended, %s holds %q: neither a complete previous nor a complete new Spec", st.target, clip(ent.Data))
	case !exists && st.hadOld:
		r.Failf("final", "previous-file-lost", "after the write ended, %s does not exist although a previous file existed", st.target)
	case !renamed && exists && label != "old" && !(label == "new" && prev == 2):
		r.Failf("final", "changed-without-rename", "the target changed to %s without a completed rename step", label)
	case !renamed && !exists && st.hadOld:
		r.Failf("final", "previous-file-lost", "target removed")
	case w2t == nil && werr == nil && !killed && (!exists || label != "new"):
		r.Failf("final", "nil-but-not-new", "WriteSpec returned nil but %s holds %s content (exists=%v)", st.target, label, exists)
	}
	// a fresh manual cache on D must load the target (if any) and the bystander, without errors
	var fresh *cdi.Cache
	e.do("fresh.NewCache", func() {
		fresh, _ = cdi.NewCache(cdi.WithSpecDirs(st.D), cdi.WithAutoRefresh(false))
	})
	var freshDevs string
	var freshErrs map[string][]error
	e.do("fresh.Query", func() {
		freshDevs = strings.Join(gpuDevices(fresh), ",")
		freshErrs = fresh.GetErrors()
	})
	if _, ok := admissibleDevs()[freshDevs]; !ok {
		r.Failf("final", "fresh-scan-mixture", "a fresh scan of %s yields vendor.com/gpu devices [%s]", st.D, freshDevs)
	}
	for k, errs := range freshErrs {
		r.Failf("final", "fresh-scan-error", "after the write ended a fresh scan of %s reports an error for %s: %v (something partial or temporary is loadable as a Spec)", st.D, k, errs)
	}
	r.State(fmt.Sprintf("%d|%s|%v|%v", scen, label, renamed, killed))
	r.Trivial = false
}
