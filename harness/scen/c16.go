package scen

import (
	"encoding/json"
	"fmt"
	"path/filepath"
	"reflect"
	"sort"
	"strings"
	"syscall"

	"tags.cncf.io/container-device-interface/pkg/cdi"
	specs "tags.cncf.io/container-device-interface/specs-go"
	"verif/sim/memfs"
	"verif/sim/sched"
	"verifharness/core"
	"verifharness/gen"
	"verifharness/model"
)

func init() {
	All["c16"] = c16
}

var hostileIDs = []string{"1234", "cfg_json", "idyaml", "json", "yaml", "a/b", "../x", "..", ".", "/", "//", "a/../../b", ".hidden", "x.json", "x.yaml", "id with space", "../../etc/cdi/evil", "a.b.c", "trailing/", "UPPER_lower-09", "x.json/y", strings.Repeat("long", 30)}
var c16Vendors = []string{"vendor.com", "acme.org", "v", "x-y.z_1", "a.b.c"}
var c16Classes = []string{"gpu", "c", "net.json", "blk.yaml", "a.b", "x_y", "devjson", "net-yaml", "json", "yaml"}

type c16Written struct {
	name string
	path string
	meta *gen.Meta
}

func c16(r *core.Run) {
	src := r.Src
	drawMapOrder(r)
	auto := src.Bool(1, 3)
	faultDen := []int{0, 0, 0, 12}[src.Intn(4)]
	r.Knob("auto_refresh", auto)
	r.Knob("write_fault_den", faultDen)
	e := newEnv(r, sched.Config{SwitchDen: 1 + src.Intn(3)}, memfs.Cred{})
	// directory list: the last one may be missing, with missing parents
	src.Begin("dirs")
	n := 1 + src.Intn(4)
	pool := append([]string(nil), dirPoolNested...)
	pool = append(pool, "/var/run/cdi/dynamic/deep")
	var dirs []string
	for len(dirs) < n { // draw without replacement (never loop on rejected draws: a replayed tape may be all zeros)
		i := src.Intn(len(pool))
		dirs = append(dirs, pool[i])
		pool = append(pool[:i:i], pool[i+1:]...)
	}
	src.End()
	last := dirs[len(dirs)-1]
	lastMissing := src.Bool(1, 3)
	for i, d := range dirs {
		if i == len(dirs)-1 && lastMissing {
			continue
		}
		e.admin.MkdirAll(d, 0o755)
	}
	r.Notef("dirs %v auto=%v last-missing=%v", dirs, auto, lastMissing)
	// pre-existing content, including lower-priority definitions of the devices that will be written
	src.Begin("populate")
	np := src.Intn(5)
	for i := 0; i < np; i++ {
		d := dirs[src.Intn(len(dirs))]
		if d == last && lastMissing {
			continue
		}
		name := specNames[src.Intn(len(specNames))]
		if src.Bool(1, 3) {
			name = "vendor.com-gpu" + []string{".yaml", ".json", "_1234.yaml", ".yaml.bak", ""}[src.Intn(5)]
		}
		m := e.reg.Valid(src, strings.HasSuffix(name, ".json"), gen.Opts{Vendors: c16Vendors, Classes: c16Classes})
		if src.Bool(1, 5) {
			m = e.reg.Invalid(src, "")
		}
		if src.Bool(1, 6) {
			// the name exists as a symbolic link to a file kept elsewhere: writing the
			// Spec must replace the link, removing it must remove the link, and the
			// file it points to is none of the library's business
			target := fmt.Sprintf("/staging/linked%d", i)
			e.admin.MkdirAll("/staging", 0o755)
			e.admin.WriteFile(target, m.Content, 0o644)
			e.admin.Symlink(target, d+"/"+name)
			r.Notef("pre-existing %s/%s -> %s = %s", d, name, target, m)
			continue
		}
		e.admin.WriteFile(d+"/"+name, m.Content, 0o644)
		r.Notef("pre-existing %s/%s = %s", d, name, m)
	}
	src.End()
	given := uncleanDirs(src, dirs)
	if fmt.Sprint(given) != fmt.Sprint(dirs) {
		r.Notef("directories given as %q", given)
	}
	e.do("NewCache", func() {
		c, _ := cdi.NewCache(cdi.WithSpecDirs(given...), cdi.WithAutoRefresh(auto))
		e.cache = c
	})
	var written []c16Written
	steps := 1 + src.Intn(6)
	if r.Tier == "thorough" && src.Bool(1, 3) {
		steps = 6 + src.Intn(15)
	}
	for s := 0; s < steps; s++ {
		src.Begin("op")
		switch src.Pick(5, 3, 1, 2, 1, 1) {
		case 0:
			if w := c16Write(r, e, dirs, faultDen, nil); w != nil {
				written = append(written, *w)
			}
		case 3: // the same Spec under the same name once more (the file may be gone, replaced, or still there)
			if len(written) > 0 {
				c16Write(r, e, dirs, faultDen, &written[src.Intn(len(written))])
			}
		case 5: // a non-empty DIRECTORY sits under the name: removing "that file" must not take the tree away
			nm := fmt.Sprintf("squatted-%d", s)
			squat := expectedPath(last, nm)
			if e.admin.MkdirAll(squat, 0o755) != 0 {
				break
			}
			e.admin.WriteFile(squat+"/precious.txt", []byte("keep me\n"), 0o644)
			before := e.w.FS.Snapshot("/")
			var rerr error
			e.do("RemoveSpec", func() { rerr = e.cache.RemoveSpec(nm) })
			r.Notef("RemoveSpec(%q) with a non-empty directory at %s -> %v", nm, squat, rerr)
			if !reflect.DeepEqual(before, e.w.FS.Snapshot("/")) {
				r.Failf("remove", "not-exactly-that-file", "RemoveSpec(%q) found a non-empty directory at %s and changed the file system (returned %v): removing a Spec file must never remove a directory tree", nm, squat, rerr)
			}
			e.admin.Unlink(memfs.AT_FDCWD, squat+"/precious.txt")
			e.admin.Rmdir(squat)
		case 4: // somebody else removes a file that was written
			if len(written) > 0 {
				w := written[src.Intn(len(written))]
				e.admin.Unlink(memfs.AT_FDCWD, w.path)
				r.Notef("rm %s (by another process)", w.path)
			}
		case 1:
			if len(written) > 0 {
				i := src.Intn(len(written))
				c16Remove(r, e, dirs, written[i].name, written[i].path, true, faultDen)
			} else {
				c16Remove(r, e, dirs, "never-written-"+fmt.Sprint(s), "", false, 0)
			}
		case 2:
			nm := "never-written" + []string{"", ".json", ".yaml"}[src.Intn(3)]
			c16Remove(r, e, dirs, nm, "", false, 0)
		}
		// not every operation is followed by a refresh: the cache may be stale
		// when the next operation starts (what it remembers must not matter)
		if src.Bool(2, 3) || s == steps-1 {
			c16Check(r, e, dirs, auto, fmt.Sprintf("op %d", s+1))
		}
		src.End()
	}
}

func expectedPath(last, name string) string {
	p := filepath.Join(last, name)
	if ext := filepath.Ext(p); ext != ".json" && ext != ".yaml" {
		p += ".yaml"
	}
	return p
}

// otherTrees digests everything outside the last directory (and its ancestors' own entries).
func treeWithout(fs *memfs.FS, last string) map[string]memfs.Entry {
	snap := fs.Snapshot("/")
	out := map[string]memfs.Entry{}
	for p, ent := range snap {
		if p == last || strings.HasPrefix(p, last+"/") || strings.HasPrefix(last, p+"/") || p == "/" {
			continue
		}
		ent.Ino = 0
		out[p] = ent
	}
	return out
}

func entriesOf(fs *memfs.FS, dir string) map[string]memfs.Entry {
	snap := fs.Snapshot("/")
	out := map[string]memfs.Entry{}
	for p, ent := range snap {
		if strings.HasPrefix(p, dir+"/") {
			ent.Ino = 0
			out[p] = ent
		}
	}
	return out
}

func isAncestorOrSelf(p, of string) bool {
	return p == of || strings.HasPrefix(of, p+"/") || p == "/"
}

// confined checks that every mutating system call of the application process since histFrom stayed inside last.
func confined(r *core.Run, e *env, histFrom int, last, what string) {
	for _, h := range e.w.FS.Hist[histFrom:] {
		if !h.Mutating || h.Proc != e.app.Name {
			continue
		}
		for _, p := range []string{h.Path, h.Path2} {
			if p == "" || (h.Op == "symlink" && p == h.Path2) {
				continue
			}
			if strings.HasPrefix(h.Op, "mkdir") && isAncestorOrSelf(p, last) {
				continue
			}
			if filepath.Dir(p) == last {
				continue
			}
			r.Failf("confinement", "touches-outside", "%s: system call %s %s %s touches something that is not a direct entry of the last Spec directory %s", what, h.Op, h.Path, h.Path2, last)
		}
	}
}

// c16Write writes a fresh Spec under a generated name, or (again != nil) the
// very same Spec under the very same name once more.
func c16Write(r *core.Run, e *env, dirs []string, faultDen int, again *c16Written) *c16Written {
	src := r.Src
	last := dirs[len(dirs)-1]
	if again != nil {
		return c16DoWrite(r, e, dirs, faultDen, again.meta, again.name, true)
	}
	m := e.reg.Valid(src, false, gen.Opts{Vendors: c16Vendors, Classes: c16Classes})
	raw := m.Spec
	var name string
	var err error
	how := src.Intn(4)
	id := hostileIDs[src.Intn(len(hostileIDs))]
	// (an extension in another case is not an extension: ".YAML" gets ".yaml" appended)
	suffix := []string{"", ".json", ".yaml", "", ".json", ".yaml", ".JSON", ".YAML", ".Yaml", ".yml"}[src.Intn(10)]
	if src.Bool(1, 6) {
		// a long, drawn id: the file name comes out 200-255 bytes long, the
		// longest a directory entry can be (longer names cannot be written at
		// all and are not asked for); every run draws another one
		const alphabet = "abcdefghijklmnopqrstuvwxyz0123456789_-."
		ext := []string{"", "", ".json", ".yaml"}[src.Intn(4)]
		// "<vendor>-<class>_<id>" plus the suffix appended below, plus the default
		// extension if the result has none: never more than 255 bytes
		room := 255 - len(m.Vendor) - len(m.Class) - 2 - len(ext) - len(suffix)
		if tail := ext + suffix; !strings.HasSuffix(tail, ".json") && !strings.HasSuffix(tail, ".yaml") {
			room -= len(".yaml")
		}
		n := room - src.Intn(12)
		var b strings.Builder
		for i := 0; i < n; i++ {
			b.WriteByte(alphabet[src.Intn(len(alphabet))])
		}
		id = b.String() + ext
	}
	switch how {
	case 0:
		name = cdi.GenerateSpecName(m.Vendor, m.Class)
	case 1:
		name = cdi.GenerateTransientSpecName(m.Vendor, m.Class, id)
	case 2:
		name, err = cdi.GenerateNameForSpec(raw)
	case 3:
		name, err = cdi.GenerateNameForTransientSpec(raw, id)
	}
	if err != nil {
		r.Failf("name", "generator-error", "name generator %d failed for the valid Spec kind %q: %v", how, raw.Kind, err)
	}
	if strings.Contains(name, "/") || name == "." || name == ".." || name == "" {
		r.Failf("name", "not-a-single-component", "generated name %q (vendor %q class %q id %q) is not a single path component", name, m.Vendor, m.Class, id)
	}
	name += suffix
	_ = last
	return c16DoWrite(r, e, dirs, faultDen, m, name, false)
}

func c16DoWrite(r *core.Run, e *env, dirs []string, faultDen int, m *gen.Meta, name string, again bool) *c16Written {
	src := r.Src
	last := dirs[len(dirs)-1]
	raw := m.Spec
	target := expectedPath(last, name)
	beforeOthers := treeWithout(e.w.FS, last)
	beforeLast := entriesOf(e.w.FS, last)
	oldEnt, hadOld := beforeLast[target]
	histFrom := len(e.w.FS.Hist)
	fired := 0
	if faultDen > 0 {
		e.w.Policy = func(t *sched.Task, op *sched.Op) sched.Decision {
			if t.Proc != e.app || !strings.HasPrefix(t.Name, "WriteSpec") || fired >= 2 {
				return sched.Decision{}
			}
			switch op.Kind {
			case "mkdir", "open(creat)", "write", "rename", "close", "unlink":
			default:
				return sched.Decision{}
			}
			if len(op.Faults) == 0 || !src.Bool(1, faultDen) {
				return sched.Decision{}
			}
			fired++
			d := sched.Decision{Err: op.Faults[src.Intn(len(op.Faults))]}
			if op.Kind == "write" && op.Len > 1 {
				d.Partial = src.Intn(op.Len)
			}
			if op.Kind == "close" {
				return sched.Decision{} // deferred close errors are C10's subject
			}
			return d
		}
	}
	var werr error
	e.do("WriteSpec", func() { werr = e.cache.WriteSpec(raw, name) })
	e.w.Policy = nil
	r.Notef("WriteSpec(%s/%s %v, %q) -> %v (faults fired %d, same Spec and name as before: %v)", m.Vendor, m.Class, m.Devices, name, werr, fired, again)
	what := fmt.Sprintf("WriteSpec(%q)", name)
	confined(r, e, histFrom, last, what)
	afterOthers := treeWithout(e.w.FS, last)
	if !reflect.DeepEqual(beforeOthers, afterOthers) {
		r.Failf("confinement", "other-tree-changed", "%s changed something outside the last Spec directory %s: before %v after %v", what, last, keysOf(beforeOthers), keysOf(afterOthers))
	}
	afterLast := entriesOf(e.w.FS, last)
	newEnt, hasNew := afterLast[target]
	var changed []string
	for p, ent := range afterLast {
		if b, ok := beforeLast[p]; !ok || !reflect.DeepEqual(b, ent) {
			changed = append(changed, p)
		}
	}
	for p := range beforeLast {
		if _, ok := afterLast[p]; !ok {
			changed = append(changed, p)
		}
	}
	sort.Strings(changed)
	if fired > 0 {
		// under injected faults: target old or new, left-over temp files tolerated
		for _, p := range changed {
			if p == target {
				continue
			}
			if strings.HasSuffix(p, ".tmp") && !strings.HasSuffix(p, ".json") && !strings.HasSuffix(p, ".yaml") {
				continue
			}
			r.Failf("confinement", "faulty-write-touched-other-entry", "%s with injected faults changed %s (target is %s)", what, p, target)
		}
		if hasNew && (!hadOld || !reflect.DeepEqual(oldEnt, newEnt)) {
			if !c16ContentOK(newEnt.Data, raw, strings.HasSuffix(target, ".json")) {
				r.Failf("content", "partial-target-after-fault", "%s failed part-way and left %s with content that is neither the old nor the complete new Spec: %q", what, target, newEnt.Data)
			}
			e.reg.Register([]byte(newEnt.Data), m, strings.HasSuffix(target, ".json"))
		}
		if werr == nil && !hasNew {
			r.Failf("content", "nil-without-file", "%s returned nil but %s does not exist", what, target)
		}
		return nil
	}
	if werr != nil {
		r.Failf("write", "error-without-fault", "%s of a valid Spec failed: %v", what, werr)
	}
	if !hasNew {
		r.Failf("write", "target-missing", "%s returned nil but the expected file %s does not exist; entries changed: %v", what, target, changed)
	}
	if again && hadOld && len(changed) == 0 && c16ContentOK(oldEnt.Data, raw, strings.HasSuffix(target, ".json")) {
		// the same Spec written again over a file that already holds it: leaving the file alone is as good as replacing it
		changed = []string{target}
	}
	if len(changed) != 1 || changed[0] != target {
		r.Failf("confinement", "not-exactly-one-file", "%s must create or replace exactly %s; entries of %s that changed: %v", what, target, last, changed)
	}
	if !c16ContentOK(newEnt.Data, raw, strings.HasSuffix(target, ".json")) {
		r.Failf("content", "encoding-or-content", "%s wrote %s with unexpected encoding/content: %q", what, target, newEnt.Data)
	}
	meta := e.reg.Register([]byte(newEnt.Data), m, strings.HasSuffix(target, ".json"))
	return &c16Written{name: name, path: target, meta: meta}
}

func keysOf(m map[string]memfs.Entry) []string {
	var out []string
	for k := range m {
		out = append(out, k)
	}
	sort.Strings(out)
	return out
}

// c16ContentOK: content parses (real parser) to a Spec JSON-equal to raw, and is JSON iff wantJSON.
func c16ContentOK(data string, raw *specs.Spec, wantJSON bool) bool {
	if json.Valid([]byte(data)) != wantJSON {
		return false
	}
	got, err := cdi.ParseSpec([]byte(data))
	if err != nil || got == nil {
		return false
	}
	a, _ := json.Marshal(got)
	b, _ := json.Marshal(raw)
	return string(a) == string(b)
}

func c16Remove(r *core.Run, e *env, dirs []string, name, path string, exists bool, faultDen int) {
	last := dirs[len(dirs)-1]
	target := expectedPath(last, name)
	_, present := e.w.FS.Lookup(target)
	before := e.w.FS.Snapshot("/")
	histFrom := len(e.w.FS.Hist)
	var rerr error
	// in the fault-injecting configuration the removal itself may fail (EIO):
	// then the call must not claim success while the file is still there
	fired := false
	if faultDen > 0 && present && r.Src.Bool(1, 3) {
		e.w.Policy = func(t *sched.Task, op *sched.Op) sched.Decision {
			if t.Proc != e.app || !strings.HasPrefix(t.Name, "RemoveSpec") || fired || op.Kind != "unlink" || len(op.Faults) == 0 {
				return sched.Decision{}
			}
			fired = true
			return sched.Decision{Err: op.Faults[0]}
		}
	}
	e.do("RemoveSpec", func() { rerr = e.cache.RemoveSpec(name) })
	e.w.Policy = nil
	r.Notef("RemoveSpec(%q) -> %v (file present before: %v, unlink fault injected: %v)", name, rerr, present, fired)
	what := fmt.Sprintf("RemoveSpec(%q)", name)
	if fired {
		_, still := e.w.FS.Lookup(target)
		if rerr == nil && still {
			r.Failf("remove", "silent-failure", "%s returned no error although unlink(%s) failed with an I/O error and the file is still there", what, target)
		}
		if !reflect.DeepEqual(before, e.w.FS.Snapshot("/")) && still {
			r.Failf("remove", "not-exactly-that-file", "%s with a failing unlink changed the file system although %s is still there", what, target)
		}
		return
	}
	if rerr != nil {
		r.Failf("remove", "error", "%s failed: %v (file present before: %v)", what, rerr, present)
	}
	after := e.w.FS.Snapshot("/")
	var gone, other []string
	for p, b := range before {
		a, ok := after[p]
		switch {
		case !ok:
			gone = append(gone, p)
		case !reflect.DeepEqual(a, b):
			other = append(other, p)
		}
	}
	for p := range after {
		if _, ok := before[p]; !ok {
			other = append(other, p)
		}
	}
	sort.Strings(gone)
	sort.Strings(other)
	if present {
		if len(gone) != 1 || gone[0] != target || len(other) != 0 {
			r.Failf("remove", "not-exactly-that-file", "%s must delete exactly %s; deleted %v, otherwise changed %v", what, target, gone, other)
		}
	} else {
		if len(gone) != 0 || len(other) != 0 {
			r.Failf("remove", "missing-name-mutates", "%s of a name that does not exist deleted %v and changed %v", what, gone, other)
		}
		for _, h := range e.w.FS.Hist[histFrom:] {
			if h.Mutating && h.Proc == e.app.Name && h.Err == 0 {
				r.Failf("remove", "missing-name-mutates", "%s of a name that does not exist performed %s %s", what, h.Op, h.Path)
			}
		}
	}
	_ = syscall.ENOENT
}

// c16Check: after a refresh the model decides what resolves; in addition every
// file in the last directory wins over every other directory.
func c16Check(r *core.Run, e *env, dirs []string, auto bool, where string) {
	if auto {
		e.w.Quiesce()
		r.CheckHealth(where)
	}
	e.do("Refresh", func() { _ = e.cache.Refresh() })
	if auto {
		e.w.Quiesce()
		r.CheckHealth(where)
	}
	truth := model.Observe(e.w.FS, dirs, e.reg, e.app.Cred)
	if truth.HasUnknown() {
		// a left-over of a faulted write with unknown content under a Spec name would be caught by c16Write
		return
	}
	var probe []string
	for q := range truth.Defined() {
		probe = append(probe, q)
	}
	var v *View
	e.do("Query", func() { v = Query(e.cache, probe) })
	r.State(e.w.FS.Digest("/"))
	dk := map[string]bool{}
	for _, d := range dirs {
		dk[d] = true
	}
	rule, sig, msg := CompareTruth(v, truth, CheckOpts{Where: where, DirKeys: dk})
	if rule != "" {
		r.Failf(rule, sig, "%s", msg)
	}
}
