// Package scen holds the simulation scenarios (engines), one per family of
// properties.  Every scenario drives the real library on the simulated
// kernel through its public API and checks oracles against the reference
// model and the ground truth of the simulated disk.
package scen

import (
	"fmt"
	"sort"
	"strings"

	"tags.cncf.io/container-device-interface/pkg/cdi"
	"verif/sim/memfs"
	"verif/sim/sched"
	"verif/sim/simrt"
	"verifharness/core"
	"verifharness/gen"
	"verifharness/model"
)

// All maps scenario names to entry points.
var All = map[string]core.Scenario{}

// View is what the query API of a cache returned.
type View struct {
	Devices    []string
	Dev        map[string]DevView // for every probed name
	Vendors    []string
	Classes    []string
	VendorFs   map[string][]string
	VendorPP   map[string][]string // vendor -> sorted "path|priority|vendor|class|spec-marker" of every Spec GetVendorSpecs returns
	SpecErrs   map[string]string   // path -> the errors GetSpecErrors reports for that Spec, joined like Errs
	ErrKeys    []string
	Errs       map[string]string
	RefreshErr string
	Refreshed  bool
}

// DevView describes one GetDevice result.
type DevView struct {
	Nil    bool
	Path   string
	Prio   int
	Marker string
	Vendor string
	Class  string
}

func specMarkerOf(env []string) string {
	for _, e := range env {
		if strings.HasPrefix(e, "CDI_SIM_SPEC=") {
			return e[len("CDI_SIM_SPEC="):]
		}
	}
	return ""
}

func markerOf(env []string) string {
	for _, e := range env {
		if strings.HasPrefix(e, "CDI_SIM=") {
			return e[len("CDI_SIM="):]
		}
	}
	return ""
}

// Query reads everything observable from the cache (to be called inside a task).
func Query(c *cdi.Cache, probe []string) *View {
	v := &View{Dev: map[string]DevView{}, VendorFs: map[string][]string{}, Errs: map[string]string{}, VendorPP: map[string][]string{}, SpecErrs: map[string]string{}}
	v.Devices = c.ListDevices()
	names := map[string]bool{}
	for _, n := range v.Devices {
		names[n] = true
	}
	for _, n := range probe {
		names[n] = true
	}
	for _, n := range sortedKeys(names) {
		d := c.GetDevice(n)
		if d == nil {
			v.Dev[n] = DevView{Nil: true}
			continue
		}
		s := d.GetSpec()
		v.Dev[n] = DevView{Path: s.GetPath(), Prio: s.GetPriority(), Marker: markerOf(d.ContainerEdits.Env) + "@" + specMarkerOf(s.ContainerEdits.Env), Vendor: s.GetVendor(), Class: s.GetClass()}
	}
	v.Vendors = c.ListVendors()
	v.Classes = c.ListClasses()
	for _, vn := range v.Vendors {
		set := map[string]bool{}
		pp := map[string]bool{}
		for _, s := range c.GetVendorSpecs(vn) {
			set[s.GetPath()] = true
			pp[fmt.Sprintf("%s|%d|%s|%s|%s", s.GetPath(), s.GetPriority(), s.GetVendor(), s.GetClass(), specMarkerOf(s.ContainerEdits.Env))] = true
			var parts []string
			for _, e := range c.GetSpecErrors(s) {
				if e == nil {
					parts = append(parts, "<nil error>")
				} else {
					parts = append(parts, e.Error())
				}
			}
			v.SpecErrs[s.GetPath()] = strings.Join(parts, "; ")
		}
		v.VendorFs[vn] = sortedKeys(set)
		v.VendorPP[vn] = sortedKeys(pp)
	}
	for k, errs := range c.GetErrors() {
		v.ErrKeys = append(v.ErrKeys, k)
		var parts []string
		for _, e := range errs {
			parts = append(parts, e.Error())
		}
		v.Errs[k] = strings.Join(parts, "; ")
	}
	sort.Strings(v.ErrKeys)
	return v
}

func sortedKeys(m map[string]bool) []string {
	out := make([]string, 0, len(m))
	for k := range m {
		out = append(out, k)
	}
	sort.Strings(out)
	return out
}

func sortedJoin(joined string) string {
	parts := strings.Split(joined, "; ")
	sort.Strings(parts)
	return strings.Join(parts, "; ")
}

func sortedKeysS(m map[string]string) []string {
	out := make([]string, 0, len(m))
	for k := range m {
		out = append(out, k)
	}
	sort.Strings(out)
	return out
}

func eqStrings(a, b []string) bool {
	if len(a) != len(b) {
		return false
	}
	for i := range a {
		if a[i] != b[i] {
			return false
		}
	}
	return true
}

// CheckOpts tunes CompareTruth.
type CheckOpts struct {
	Where      string
	SkipErrors bool                   // do not check the error report
	TolNames   map[string]bool        // qualified names whose resolution may be anything (their file was touched inside a scan window)
	TolPaths   map[string]bool        // Spec paths whose error entry may be present or absent
	DirKeys    map[string]bool        // keys of GetErrors that are directory entries (allowed)
	MayErr     func(path string) bool // further paths that may have an error entry
	// TornPaths: Spec files another process modified IN PLACE (write, truncate)
	// while the scan was reading them, with their priority.  What the scan read
	// may be any mixture of the old and the new bytes, which the model cannot
	// know: whatever resolves to such a file is tolerated, and so is a name of
	// equal or lower priority that the unknown content may shadow or conflict with.
	TornPaths map[string]int
}

func without(xs []string, drop map[string]bool) []string {
	var out []string
	for _, x := range xs {
		if !drop[x] {
			out = append(out, x)
		}
	}
	return out
}

// CompareTruth checks a View against the model.  It returns "" or a (rule, detail, message) triple.
func CompareTruth(v *View, t *model.Truth, o CheckOpts) (rule, sig, msg string) {
	want := t.Resolve()
	defined := t.Defined()
	var wantNames []string
	for q := range want {
		wantNames = append(wantNames, q)
	}
	sort.Strings(wantNames)
	if len(o.TornPaths) > 0 {
		tol := map[string]bool{}
		for q := range o.TolNames {
			tol[q] = true
		}
		maxPrio := -1
		for _, p := range o.TornPaths {
			if p > maxPrio {
				maxPrio = p
			}
		}
		for q, dv := range v.Dev {
			if _, torn := o.TornPaths[dv.Path]; torn && !dv.Nil {
				tol[q] = true
			}
		}
		for q, w := range want {
			if dv, ok := v.Dev[q]; w.Prio <= maxPrio && (!ok || dv.Nil || dv.Path != w.Path) {
				tol[q] = true
			}
		}
		o.TolNames = tol
	}
	for _, q := range without(wantNames, o.TolNames) {
		w := want[q]
		dv, ok := v.Dev[q]
		if !ok || dv.Nil {
			return "resolve", classifyMissing(q, t), fmt.Sprintf("%s: %s must resolve to %s (priority %d) but does not; ListDevices=%v want %v", o.Where, q, w.Path, w.Prio, v.Devices, wantNames)
		}
		if dv.Path != w.Path || dv.Prio != w.Prio {
			return "resolve", "wrong-file", fmt.Sprintf("%s: %s resolves to %s (priority %d), want %s (priority %d)", o.Where, q, dv.Path, dv.Prio, w.Path, w.Prio)
		}
		if dv.Marker != w.Marker {
			return "resolve", "stale-definition", fmt.Sprintf("%s: %s resolves to %s with marker %q, the file now holds %q", o.Where, q, dv.Path, dv.Marker, w.Marker)
		}
	}
	var probed []string
	for q := range v.Dev {
		probed = append(probed, q)
	}
	sort.Strings(probed)
	for _, q := range without(probed, o.TolNames) {
		dv := v.Dev[q]
		if _, ok := want[q]; !ok && !dv.Nil {
			why := "never-defined"
			if defined[q] {
				why = "conflict-at-top"
			}
			return "resolve", "extra/" + why, fmt.Sprintf("%s: GetDevice(%s) = %+v but the name must not resolve (%s)", o.Where, q, dv, why)
		}
	}
	if !eqStrings(without(v.Devices, o.TolNames), without(wantNames, o.TolNames)) {
		return "listing", "devices", fmt.Sprintf("%s: ListDevices=%v want %v", o.Where, v.Devices, wantNames)
	}
	for _, q := range v.Devices {
		if dv, ok := v.Dev[q]; !ok || dv.Nil {
			if !o.TolNames[q] {
				return "listing", "listed-but-nil", fmt.Sprintf("%s: %s is listed by ListDevices but GetDevice returns nil", o.Where, q)
			}
		}
	}
	if len(o.TolNames) == 0 {
		if !eqStrings(v.Vendors, t.Vendors()) {
			return "listing", "vendors", fmt.Sprintf("%s: ListVendors=%v want %v", o.Where, v.Vendors, t.Vendors())
		}
		if !eqStrings(v.Classes, t.Classes()) {
			return "listing", "classes", fmt.Sprintf("%s: ListClasses=%v want %v", o.Where, v.Classes, t.Classes())
		}
		for _, vn := range t.Vendors() {
			if !eqStrings(v.VendorFs[vn], t.VendorPaths(vn)) {
				return "listing", "vendor-specs", fmt.Sprintf("%s: GetVendorSpecs(%s) paths=%v want %v", o.Where, vn, v.VendorFs[vn], t.VendorPaths(vn))
			}
			if !eqStrings(v.VendorPP[vn], t.VendorSpecs(vn)) {
				return "listing", "vendor-spec-attributes", fmt.Sprintf("%s: GetVendorSpecs(%s) returns Specs (path|priority|vendor|class|spec marker) %v, want %v", o.Where, vn, v.VendorPP[vn], t.VendorSpecs(vn))
			}
		}
	}
	if !o.SkipErrors {
		// GetSpecErrors(spec) is the per-Spec view of the same report
		for _, path := range sortedKeysS(v.SpecErrs) {
			if o.TolPaths[path] {
				continue
			}
			// as sets of messages: the order of the entries of one file follows
			// map iteration and may differ from one refresh to the next
			if sortedJoin(v.SpecErrs[path]) != sortedJoin(v.Errs[path]) {
				return "errors", "per-spec-report-differs", fmt.Sprintf("%s: GetSpecErrors(%s) = [%s] but GetErrors()[%s] = [%s]", o.Where, path, v.SpecErrs[path], path, v.Errs[path])
			}
		}
		must := t.MustErr()
		may := t.ConflictParticipants()
		have := map[string]bool{}
		for _, k := range v.ErrKeys {
			have[k] = true
		}
		for _, p := range sortedKeys(must) {
			if !have[p] && !o.TolPaths[p] {
				return "errors", "missing-entry", fmt.Sprintf("%s: %s is a failing Spec file but GetErrors has no entry for it (keys %v)", o.Where, p, v.ErrKeys)
			}
		}
		for _, k := range v.ErrKeys {
			if must[k] || may[k] || o.TolPaths[k] || (o.DirKeys != nil && o.DirKeys[k]) || (o.MayErr != nil && o.MayErr(k)) {
				continue
			}
			return "errors", "spurious-entry", fmt.Sprintf("%s: GetErrors has an entry for %s (%s) which is not a failing Spec file", o.Where, k, v.Errs[k])
		}
	}
	return "", "", ""
}

func classifyMissing(q string, t *model.Truth) string {
	// does a lower-priority directory hold a same-priority conflict for q ?
	type key struct{ idx int }
	cnt := map[int]int{}
	top := -1
	for _, f := range t.Files {
		if f.State != "valid" {
			continue
		}
		for _, x := range f.Meta.Qualified() {
			if x == q {
				cnt[f.DirIdx]++
				if f.DirIdx > top {
					top = f.DirIdx
				}
			}
		}
	}
	for idx, n := range cnt {
		if idx < top && n > 1 {
			return "missing/conflict-below-unique"
		}
	}
	if len(cnt) > 1 {
		return "missing/shadowing"
	}
	return "missing/plain"
}

// env holds what most scenarios share.
type env struct {
	r     *core.Run
	w     *sched.World
	app   *sched.Proc
	admin *sched.Proc // the harness's own process: population and directory changes
	reg   *gen.Registry
	cache *cdi.Cache
}

func newEnv(r *core.Run, cfg sched.Config, cred memfs.Cred) *env {
	w := r.NewWorld(cfg)
	e := &env{r: r, w: w, reg: gen.NewRegistry()}
	e.app = w.NewProc("app", cred)
	e.admin = w.Direct()
	return e
}

// do runs fn as a task of the application process until it finishes; a panic,
// deadlock or hang is a violation.
func (e *env) do(name string, fn func()) {
	e.doIn(e.app, name, fn)
}

func (e *env) doIn(p *sched.Proc, name string, fn func()) {
	t, ok := e.w.Do(p, name, fn)
	e.r.CheckHealth(name)
	if !ok {
		if t.Done {
			return
		}
		e.r.Failf("hang", t.PendingKind(), "operation %s cannot finish: task is blocked on %s %s and nothing else can run", name, t.PendingKind(), t.PendingPath())
	}
	e.r.OpsDone++
}

func drawMapOrder(r *core.Run) {
	simrt.MapOrder = r.Src.Bool(1, 2)
	r.Knob("map_order", simrt.MapOrder)
}
