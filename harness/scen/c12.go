package scen

import (
	"encoding/json"
	"fmt"
	"sort"
	"strings"
	"time"

	"github.com/anishathalye/porcupine"
	oci "github.com/opencontainers/runtime-spec/specs-go"

	"tags.cncf.io/container-device-interface/pkg/cdi"
	specs "tags.cncf.io/container-device-interface/specs-go"
	"verif/sim/memfs"
	"verif/sim/sched"
	"verif/sim/simos"
	"verif/sim/simrt"
	"verifharness/core"
	"verifharness/gen"

	"sigs.k8s.io/yaml"
)

func init() {
	All["c12"] = c12
}

// The universe of C12 is deliberately tiny so that every result is
// attributable: three directories, two static files, one file F that
// switches atomically between absent / content A / content B.
const (
	c12D0 = "/etc/cdi"
	c12D1 = "/run/cdi"
	c12D2 = "/opt/vendor/cdi"
	c12D3 = "/var/run/cdi" // lowest priority, never holds a file, may be missing and (re)appear
	c12F  = "/run/cdi/vendor.com-gpu.yaml"
)

var c12Cfgs = [][]string{{c12D3, c12D0, c12D1}, {c12D3, c12D1}, {c12D3, c12D2, c12D1}}

const (
	fAbsent = iota
	fA
	fB
)

func c12Name(d string) string { return "vendor.com/gpu=" + d }

// c12View is the resolution the documented precedence rule gives for (configuration, state of F).
func c12View(cfg, f int) map[string]string {
	m := map[string]string{}
	switch cfg {
	case 0:
		m[c12Name("d0")] = "S.d0"
	case 2:
		m[c12Name("d2")] = "T.d2"
	}
	switch f {
	case fA:
		m[c12Name("d0")] = "A.d0"
		m[c12Name("d1")] = "A.d1"
	case fB:
		m[c12Name("d1")] = "B.d1"
		m[c12Name("d2")] = "B.d2"
	}
	return m
}

func viewKey(m map[string]string) string {
	var ks []string
	for k, v := range m {
		ks = append(ks, k+"="+v)
	}
	sort.Strings(ks)
	return strings.Join(ks, ",")
}

func namesKey(m map[string]string) string {
	var ks []string
	for k := range m {
		ks = append(ks, k)
	}
	sort.Strings(ks)
	return strings.Join(ks, ",")
}

type c12Op struct {
	Client int
	Kind   string
	Arg    string
	Call   int64
	Ret    int64
	Out    string // normalised result
	Done   bool
}

type c12Input struct {
	Kind string
	Arg  string
}

type c12ModelState struct {
	Cfg, Disk, ICfg, IDisk int
}

// expected result of a query on the published index (idxCfg, idxDisk)
func c12Expect(kind, arg string, s c12ModelState) string {
	v := c12View(s.ICfg, s.IDisk)
	switch kind {
	case "ListDevices":
		return namesKey(v)
	case "GetDevice":
		if m, ok := v[arg]; ok {
			return m
		}
		return "<nil>"
	case "InjectDevices":
		return c12InjectExpect(v, strings.Split(arg, ","))
	case "ListVendors":
		if len(v) == 0 {
			return ""
		}
		return "vendor.com"
	case "GetSpecDirectories":
		return strings.Join(c12Cfgs[s.Cfg], ",")
	}
	return ""
}

func c12InjectExpect(v map[string]string, req []string) string {
	var unresolved, env []string
	for _, q := range req {
		if m, ok := v[q]; ok {
			env = append(env, m)
		} else {
			unresolved = append(unresolved, q)
		}
	}
	if len(unresolved) > 0 {
		return "unresolved:" + strings.Join(unresolved, ",")
	}
	sort.Strings(env)
	return "env:" + strings.Join(env, ",")
}

var c12Model = porcupine.Model{
	Init: func() interface{} { return c12ModelState{} },
	Step: func(state, input, output interface{}) (bool, interface{}) {
		s := state.(c12ModelState)
		in := input.(c12Input)
		out := output.(string)
		switch in.Kind {
		case "switch":
			fmt.Sscan(in.Arg, &s.Disk)
			return true, s
		case "Refresh":
			s.ICfg, s.IDisk = s.Cfg, s.Disk
			return true, s
		case "ConfigureDirs":
			fmt.Sscan(in.Arg, &s.Cfg)
			s.ICfg, s.IDisk = s.Cfg, s.Disk
			return true, s
		case "WriteSpec", "RemoveSpec", "GetErrors", "GetSpecErrors", "GetSpecDirErrors", "ListClasses", "GetVendorSpecs", "ToggleDir", "SetSpecValidator":
			return true, s
		}
		return out == c12Expect(in.Kind, in.Arg, s), s
	},
	Equal: func(a, b interface{}) bool { return a == b },
	DescribeOperation: func(input, output interface{}) string {
		in := input.(c12Input)
		return fmt.Sprintf("%s(%s) -> %v", in.Kind, in.Arg, output)
	},
}

// c12Spec: every device sets CDI_SIM (its marker) and a variable of its own, so
// that an injected OCI spec shows the revision of every device it got.
func c12Spec(tag string, devs ...string) *specs.Spec {
	s := &specs.Spec{Version: "0.6.0", Kind: "vendor.com/gpu"}
	for _, d := range devs {
		s.Devices = append(s.Devices, specs.Device{Name: d, ContainerEdits: specs.ContainerEdits{Env: []string{"CDI_SIM=" + tag + "." + d, "CDI_DEV_" + d + "=" + tag + "." + d}}})
	}
	return s
}

type acceptAll struct{}

func (acceptAll) Validate(*specs.Spec) error { return nil }

func siteSig(id int) string {
	s := simrt.Site(id)
	if i := strings.LastIndex(s, " ("); i > 0 {
		s = s[:i]
	}
	return strings.ReplaceAll(s, " ", "_")
}

// c12FirstUse: several tasks touch the package-level default cache for the
// first time concurrently (GetDefaultCache, Refresh, GetErrors, InjectDevices,
// Configure).  All must end up with one and the same cache, without a data
// race, deadlock or panic.
func c12FirstUse(r *core.Run) {
	src := r.Src
	e := newEnv(r, sched.Config{SwitchDen: 1, AccessDen: []int{0, 8, 32}[src.Intn(3)], MaxSteps: 400000}, memfs.Cred{})
	e.w.RaceOn()
	e.admin.MkdirAll("/etc/cdi", 0o755)
	e.admin.WriteFile("/etc/cdi/static.json", gen.Encode(c12Spec("S", "d0"), true), 0o644)
	n := 2 + src.Intn(3)
	got := make([]*cdi.Cache, n)
	var tasks []*sched.Task
	var kinds []string
	for i := 0; i < n; i++ {
		i := i
		k := src.Intn(5)
		kinds = append(kinds, []string{"GetDefaultCache", "Refresh", "GetErrors", "InjectDevices", "Configure"}[k])
		tasks = append(tasks, e.w.Spawn(e.app, fmt.Sprintf("first%d", i), func() {
			switch k {
			case 1:
				_ = cdi.Refresh()
			case 2:
				_ = cdi.GetErrors()
			case 3:
				_, _ = cdi.InjectDevices(&oci.Spec{}, c12Name("d0"))
			case 4:
				_ = cdi.Configure(cdi.WithAutoRefresh(false))
			}
			got[i] = cdi.GetDefaultCache()
		}))
	}
	r.Notef("first use of the default cache by %d tasks: %v", n, kinds)
	e.w.Run(func() bool {
		if len(e.w.Races) > 0 {
			return true
		}
		for _, t := range tasks {
			if !t.Done {
				return false
			}
		}
		return true
	})
	if len(e.w.Races) == 0 {
		e.w.Quiesce() // the goroutines the first use started run on until they rest
	}
	if len(e.w.Races) > 0 {
		rc := e.w.Races[0]
		a, b := siteSig(rc.PrevSite), siteSig(rc.CurSite)
		if a > b {
			a, b = b, a
		}
		r.Failf("race", a+"~"+b, "data race at first use of the default cache: %s %s at %s is not ordered after the %s by %s at %s",
			rc.CurTask, rw(rc.CurWrite), simrt.Site(rc.CurSite), rw(rc.PrevWrite), rc.PrevTask, simrt.Site(rc.PrevSite))
	}
	r.CheckHealth("first use of the default cache")
	for _, t := range tasks {
		e.w.Join(t)
		if !t.Done {
			r.Failf("hang", t.PendingKind(), "task %s cannot finish: blocked on %s", t.Name, t.PendingKind())
		}
	}
	for i := 1; i < n; i++ {
		if got[i] != got[0] || got[i] == nil {
			r.Failf("default-cache", "two-instances", "GetDefaultCache() returned different caches to tasks that touched it concurrently for the first time (%p vs %p)", got[0], got[i])
		}
	}
	e.w.Quiesce()
	r.State(fmt.Sprintf("firstuse|%v", kinds))
}

func c12(r *core.Run) {
	src := r.Src
	if src.Bool(1, 10) {
		c12FirstUse(r)
		return
	}
	drawMapOrder(r)
	auto := src.Bool(1, 2)
	useDefault := src.Bool(1, 4)
	accessDen := []int{0, 0, 24, 96}[src.Intn(4)]
	r.Knob("auto_refresh", auto)
	r.Knob("default_cache", useDefault)
	r.Knob("access_preemption_den", accessDen)
	e := newEnv(r, sched.Config{SwitchDen: []int{1, 1, 2, 3}[src.Intn(4)], AccessDen: accessDen, MaxSteps: 400000}, memfs.Cred{})
	e.w.RaceOn()
	if auto && src.Bool(1, 6) {
		e.w.FS.MaxQueuedEvents = 3 + src.Intn(6) // event loss by queue overflow: exercises the watcher's error path
		r.Knob("max_queued_events", e.w.FS.MaxQueuedEvents)
	}
	specS := c12Spec("S", "d0")
	specT := c12Spec("T", "d2")
	specA := c12Spec("A", "d0", "d1")
	specB := c12Spec("B", "d1", "d2")
	// the encodings of the two states differ in LENGTH, so that bytes of one
	// written with the length of the other are neither (S-C10-l)
	specB.Annotations = map[string]string{"pad": "0123456789abcdef"}
	for _, d := range []string{c12D0, c12D1, c12D2} {
		e.admin.MkdirAll(d, 0o755)
	}
	e.admin.MkdirAll("/var/run", 0o755)
	if src.Bool(1, 2) {
		e.admin.MkdirAll(c12D3, 0o755)
	}
	// sometimes the cache is set up while the process has no free descriptors:
	// the watcher cannot be created and every query refreshes by itself
	noWatcher := auto && src.Bool(1, 4)
	r.Knob("watcher_creation_fails", noWatcher)
	e.admin.WriteFile(c12D0+"/static.json", gen.Encode(specS, true), 0o644)
	e.admin.WriteFile(c12D2+"/static.json", gen.Encode(specT, true), 0o644)
	initCfg := src.Intn(len(c12Cfgs))
	initDisk := src.Intn(3)
	switch initDisk {
	case fA:
		e.admin.WriteFile(c12F, gen.Encode(specA, false), 0o644)
	case fB:
		e.admin.WriteFile(c12F, gen.Encode(specB, false), 0o644)
	}
	if noWatcher {
		e.app.NoFile = e.app.NumFDs()
	}
	e.do("create", func() {
		opts := []cdi.Option{cdi.WithSpecDirs(c12Cfgs[initCfg]...), cdi.WithAutoRefresh(auto)}
		if useDefault {
			_ = cdi.Configure(opts...)
			e.cache = cdi.GetDefaultCache()
		} else {
			c, _ := cdi.NewCache(opts...)
			e.cache = c
		}
	})
	e.app.NoFile = 1024
	r.Notef("cache: dirs %v auto=%v default=%v watcher=%v; F initially %d", c12Cfgs[initCfg], auto, useDefault, !noWatcher, initDisk)

	// ---- state tracking by an omniscient observer ----
	stamp := func(phase int64) int64 { return int64(e.w.Step)*3 + phase }
	jsonOf := func(sp *specs.Spec) string { b, _ := json.Marshal(sp); return string(b) }
	imgA, imgB := jsonOf(specA), jsonOf(specB)
	diskState := map[string]int{}
	diskOf := func() int {
		ent, ok := e.w.FS.Lookup(c12F)
		if !ok {
			return fAbsent
		}
		// exactly state A or exactly state B (as a decoded Spec, in either
		// encoding); anything else - a prefix, a mixture, one state's bytes
		// followed by the other's tail - is partial content
		if d, ok := diskState[ent.Data]; ok {
			return d
		}
		d := -1
		var sp specs.Spec
		if err := yaml.Unmarshal([]byte(ent.Data), &sp); err == nil {
			switch img, _ := json.Marshal(&sp); string(img) {
			case imgA:
				d = fA
			case imgB:
				d = fB
			}
		}
		if len(diskState) < 64 {
			diskState[ent.Data] = d
		}
		return d
	}
	curDisk := diskOf()
	seenDisk := map[int]bool{curDisk: true}
	seenCfg := map[int]bool{initCfg: true}
	var history []*c12Op
	partial := ""
	e.w.OnStep = func() {
		d := diskOf()
		if d == -1 && partial == "" {
			ent, _ := e.w.FS.Lookup(c12F)
			partial = clip(ent.Data)
		}
		if d != curDisk && d >= 0 {
			curDisk = d
			seenDisk[d] = true
			history = append(history, &c12Op{Client: 99, Kind: "switch", Arg: fmt.Sprint(d), Call: stamp(0), Ret: stamp(0), Done: true})
		}
	}
	mixedMode := false
	snapViol := ""
	// containers handed out by queries are kept and looked at again at the end of
	// the run: a result that changes after it was returned is not a snapshot
	type kept struct {
		what string
		was  string
		now  func() string
	}
	var keptResults []kept
	keep := func(what string, now func() string) {
		if len(keptResults) < 64 {
			keptResults = append(keptResults, kept{what, now(), now})
		}
	}
	admissible := func(kind, arg string) map[string]bool {
		out := map[string]bool{}
		for c := range seenCfg {
			for d := range seenDisk {
				out[c12Expect(kind, arg, c12ModelState{Cfg: c, ICfg: c, IDisk: d})] = true
			}
		}
		return out
	}
	checkSnap := func(op *c12Op) {
		switch op.Kind {
		case "ListDevices", "GetDevice", "InjectDevices", "ListVendors", "GetSpecDirectories":
		default:
			return
		}
		adm := admissible(op.Kind, op.Arg)
		if !adm[op.Out] && snapViol == "" {
			var as []string
			for a := range adm {
				as = append(as, "["+a+"]")
			}
			sort.Strings(as)
			snapViol = fmt.Sprintf("%s(%s) returned [%s]; every state the directories and the configuration went through so far gives one of %s: the result mixes states or comes from a half-built index", op.Kind, op.Arg, op.Out, strings.Join(as, " "))
		}
	}

	// ---- client programs ----
	nclients := 2 + src.Intn(3)
	if r.Tier == "thorough" && src.Bool(1, 4) {
		nclients = 5 + src.Intn(2) // more clients in the thorough tier
	}
	wspec := []*specs.Spec{specA, specB}
	var tasks []*sched.Task
	for cl := 0; cl < nclients; cl++ {
		src.Begin("program")
		nops := 3 + src.Intn(6)
		if r.Tier == "thorough" && src.Bool(1, 4) {
			nops = 8 + src.Intn(6)
		}
		type planned struct {
			kind, arg string
			run       func() string
		}
		var prog []planned
		for i := 0; i < nops; i++ {
			src.Begin("op")
			var p planned
			switch src.Pick(3, 3, 3, 2, 2, 1, 1, 1, 1, 1, 1, 2, 1, 3, 2, 1, 1) {
			case 0:
				p = planned{"ListDevices", "", func() string {
					l := e.cache.ListDevices()
					keep("the slice returned by ListDevices", func() string { return strings.Join(l, ",") })
					return strings.Join(l, ",")
				}}
			case 1:
				q := c12Name([]string{"d0", "d1", "d2"}[src.Intn(3)])
				p = planned{"GetDevice", q, func() string {
					d := e.cache.GetDevice(q)
					if d == nil {
						return "<nil>"
					}
					return markerOf(d.ContainerEdits.Env)
				}}
			case 2:
				var req []string
				for _, d := range []string{"d0", "d1", "d2"} {
					if src.Bool(1, 2) {
						req = append(req, c12Name(d))
					}
				}
				if len(req) == 0 {
					req = []string{c12Name("d1")}
				}
				p = planned{"InjectDevices", strings.Join(req, ","), func() string {
					sp := &oci.Spec{}
					var un []string
					var err error
					if useDefault {
						un, err = cdi.InjectDevices(sp, req...)
					} else {
						un, err = e.cache.InjectDevices(sp, req...)
					}
					if len(un) > 0 {
						return "unresolved:" + strings.Join(un, ",")
					}
					if err != nil {
						return "error:" + err.Error()
					}
					var env []string
					if sp.Process != nil {
						for _, v := range sp.Process.Env {
							if strings.HasPrefix(v, "CDI_DEV_") {
								env = append(env, v[strings.Index(v, "=")+1:])
							}
						}
					}
					sort.Strings(env)
					return "env:" + strings.Join(env, ",")
				}}
			case 3:
				p = planned{"ListVendors", "", func() string { return strings.Join(e.cache.ListVendors(), ",") }}
			case 4:
				p = planned{"Refresh", "", func() string {
					if useDefault {
						_ = cdi.Refresh()
					} else {
						_ = e.cache.Refresh()
					}
					return ""
				}}
			case 5:
				p = planned{"GetErrors", "", func() string {
					var m map[string][]error
					if useDefault {
						m = cdi.GetErrors()
					} else {
						m = e.cache.GetErrors()
					}
					keep("the map returned by GetErrors", func() string { return fmt.Sprint(m) })
					return ""
				}}
			case 6:
				p = planned{"GetSpecErrors", "", func() string {
					for _, s := range e.cache.GetVendorSpecs("vendor.com") {
						_ = e.cache.GetSpecErrors(s)
					}
					return ""
				}}
			case 7:
				p = planned{"GetSpecDirectories", "", func() string {
					l := e.cache.GetSpecDirectories()
					keep("the slice returned by GetSpecDirectories", func() string { return strings.Join(l, ",") })
					return strings.Join(l, ",")
				}}
			case 8:
				p = planned{"GetSpecDirErrors", "", func() string {
					m := e.cache.GetSpecDirErrors()
					keep("the map returned by GetSpecDirErrors", func() string { return fmt.Sprint(m) })
					return ""
				}}
			case 9:
				p = planned{"ListClasses", "", func() string { _ = e.cache.ListClasses(); return "" }}
			case 10:
				p = planned{"GetVendorSpecs", "", func() string {
					l := e.cache.GetVendorSpecs("vendor.com")
					show := func() string {
						var ps []string
						for _, sp := range l {
							ps = append(ps, fmt.Sprintf("%s|%d|%d", sp.GetPath(), sp.GetPriority(), len(sp.Devices)))
						}
						return strings.Join(ps, ",")
					}
					keep("the slice returned by GetVendorSpecs", show)
					return ""
				}}
			case 11:
				c := src.Intn(len(c12Cfgs))
				p = planned{"ConfigureDirs", fmt.Sprint(c), func() string {
					if useDefault {
						_ = cdi.Configure(cdi.WithSpecDirs(c12Cfgs[c]...))
					} else {
						_ = e.cache.Configure(cdi.WithSpecDirs(c12Cfgs[c]...))
					}
					return ""
				}}
			case 12:
				a := src.Bool(1, 2)
				p = planned{"ConfigureAuto", fmt.Sprint(a), func() string {
					_ = e.cache.Configure(cdi.WithAutoRefresh(a))
					return ""
				}}
			case 13:
				k := src.Intn(2)
				p = planned{"WriteSpec", []string{"A", "B"}[k], func() string {
					if err := e.cache.WriteSpec(wspec[k], "vendor.com-gpu"); err != nil {
						return "error:" + err.Error()
					}
					return ""
				}}
			case 16:
				p = planned{"SetSpecValidator", "", func() string {
					// installing (the same, accepting) validator takes the validator lock for writing
					cdi.SetSpecValidator(acceptAll{})
					return ""
				}}
			case 15:
				p = planned{"ToggleDir", c12D3, func() string {
					// a configured (empty, lowest priority) directory appears or disappears
					if err := simos.Mkdir(c12D3, 0o755); err != nil {
						_ = simos.Remove(c12D3)
					}
					return ""
				}}
			case 14:
				p = planned{"RemoveSpec", "", func() string {
					if err := e.cache.RemoveSpec("vendor.com-gpu"); err != nil {
						return "error:" + err.Error()
					}
					return ""
				}}
			}
			if p.kind == "ConfigureAuto" {
				mixedMode = true
			}
			prog = append(prog, p)
			src.End()
		}
		src.End()
		var descs []string
		for _, p := range prog {
			descs = append(descs, p.kind+"("+p.arg+")")
		}
		r.Notef("client%d: %s", cl, strings.Join(descs, "; "))
		cl := cl
		tasks = append(tasks, e.w.Spawn(e.app, fmt.Sprintf("client%d", cl), func() {
			for _, p := range prog {
				op := &c12Op{Client: cl, Kind: p.kind, Arg: p.arg, Call: stamp(2)}
				if p.kind == "ConfigureDirs" {
					var c int
					fmt.Sscan(p.arg, &c)
					seenCfg[c] = true
				}
				history = append(history, op)
				op.Out = p.run()
				op.Ret = stamp(1)
				op.Done = true
				if (p.kind == "WriteSpec" || p.kind == "RemoveSpec") && strings.HasPrefix(op.Out, "error:") && snapViol == "" {
					snapViol = fmt.Sprintf("%s(%s) failed without any injected fault: %s", p.kind, p.arg, op.Out)
				}
				checkSnap(op)
			}
		}))
	}
	e.w.Run(func() bool {
		if snapViol != "" || len(e.w.Races) > 0 {
			return true
		}
		for _, t := range tasks {
			if !t.Done {
				return false
			}
		}
		return true
	})
	// 1. data races
	if len(e.w.Races) > 0 {
		rc := e.w.Races[0]
		a, b := siteSig(rc.PrevSite), siteSig(rc.CurSite)
		if a > b {
			a, b = b, a
		}
		r.Failf("race", a+"~"+b, "data race: %s performs a %s at %s which is not ordered (no lock, no happens-before edge) after the %s by %s at %s",
			rc.CurTask, rw(rc.CurWrite), simrt.Site(rc.CurSite), rw(rc.PrevWrite), rc.PrevTask, simrt.Site(rc.PrevSite))
	}
	// 2. deadlocks, panics
	r.CheckHealth("concurrent operations")
	if partial != "" {
		r.Failf("snapshot", "partial-file", "the Spec file held partial content at some instant: %q", partial)
	}
	// 3. one snapshot per result
	if snapViol != "" {
		r.Failf("snapshot", "mixture", "%s", snapViol)
	}
	for _, t := range tasks {
		e.w.Join(t)
		if !t.Done {
			r.Failf("hang", t.PendingKind(), "client task %s cannot finish: blocked on %s", t.Name, t.PendingKind())
		}
	}
	e.w.OnStep = nil
	e.w.Quiesce()
	if len(e.w.Races) > 0 {
		rc := e.w.Races[0]
		a, b := siteSig(rc.PrevSite), siteSig(rc.CurSite)
		if a > b {
			a, b = b, a
		}
		r.Failf("race", a+"~"+b, "data race: %s performs a %s at %s which is not ordered after the %s by %s at %s",
			rc.CurTask, rw(rc.CurWrite), simrt.Site(rc.CurSite), rw(rc.PrevWrite), rc.PrevTask, simrt.Site(rc.PrevSite))
	}
	r.CheckHealth("after the concurrent operations")
	for _, k := range keptResults {
		if now := k.now(); now != k.was {
			r.Failf("snapshot", "result-changed-after-return", "%s changed after it was returned: it was [%s], it now reads [%s]", k.what, k.was, now)
		}
	}
	// 4. linearizability, in runs that stay in manual mode
	if !auto && !mixedMode {
		var ops []porcupine.Operation
		for _, op := range history {
			if !op.Done {
				continue
			}
			ret := op.Ret
			if ret <= op.Call {
				ret = op.Call + 1
			}
			ops = append(ops, porcupine.Operation{ClientId: op.Client, Input: c12Input{op.Kind, op.Arg}, Call: op.Call, Output: op.Out, Return: ret})
		}
		init := c12ModelState{Cfg: initCfg, Disk: initDisk, ICfg: initCfg, IDisk: initDisk}
		m := c12Model
		m.Init = func() interface{} { return init }
		res := porcupine.CheckOperationsTimeout(m, ops, 10*time.Second)
		switch res {
		case porcupine.Illegal:
			var lines []string
			for _, op := range history {
				lines = append(lines, fmt.Sprintf("client%d %s(%s) [%d,%d] -> %q", op.Client, op.Kind, op.Arg, op.Call, op.Ret, op.Out))
			}
			r.Failf("linearizability", "", "in manual refresh mode the history is not linearizable against the model (configuration, disk, index published by Refresh/Configure):\n%s", strings.Join(lines, "\n"))
		case porcupine.Unknown:
			r.Probe("linearizability_check_timed_out")
		default:
			r.Probe("linearizable_history_checked")
		}
	}
	r.State(fmt.Sprintf("%d|%d|%v|%d", initCfg, curDisk, auto, len(history)))
}

func rw(w bool) string {
	if w {
		return "write"
	}
	return "read"
}
