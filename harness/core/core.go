// Package core is the run loop of the simulation engines: one Run is one
// simulated execution decided by one tape; the worker loop generates runs
// from a seed, classifies violations, minimises them and writes replay files.
package core

import (
	"crypto/sha256"
	"encoding/hex"
	"encoding/json"
	"fmt"
	"os"
	"runtime"
	"runtime/debug"
	"sort"
	"strings"
	"sync/atomic"
	"syscall"
	"time"

	"verif/sim/choice"
	"verif/sim/sched"
	"verif/sim/simrt"
	"verif/sim/simtime"
)

// Violation is one oracle failure.
type Violation struct {
	Property string `json:"property"`
	Rule     string `json:"rule"`
	Sig      string `json:"signature"`
	Msg      string `json:"message"`
}

type abortRun struct{}

// Run is one simulated execution.
type Run struct {
	Prop     string
	Scenario string
	Tier     string
	Src      *choice.Source
	W        *sched.World
	Viol     *Violation
	Notes    []string          // human-readable description of the run (for samples)
	Knobs    map[string]string // swarm knobs drawn for this run
	TraceOn  bool
	Probes   map[string]int
	States   map[string]bool // distinct state digests seen in this run
	Sigs     []string        // schedule signature parts
	Discard  string          // non-empty: the run is not a verdict (budget exceeded ...)
	Known    map[string]bool // signatures of known findings: do not abort on them
	KnownHit map[string]int
	Trivial  bool
	OpsDone  int
}

// Failf records a violation and aborts the run.  sig identifies the cause
// (not the seed); minimisation keeps the signature fixed.
func (r *Run) Failf(rule, sig, format string, a ...any) {
	full := r.Prop + "/" + rule
	if sig != "" {
		full += "/" + sig
	}
	if r.Known != nil && r.Known[full] {
		r.KnownHit[full]++
		if r.Viol == nil {
			// a known finding ends the run (the state behind it is not trustworthy) without a verdict
			r.Discard = "known finding " + full
		}
		panic(abortRun{})
	}
	if r.Viol == nil {
		r.Viol = &Violation{Property: r.Prop, Rule: rule, Sig: full, Msg: fmt.Sprintf(format, a...)}
	}
	panic(abortRun{})
}

// Notef adds a line to the description of the run.
func (r *Run) Notef(format string, a ...any) {
	s := fmt.Sprintf(format, a...)
	r.Notes = append(r.Notes, s)
	if r.W != nil {
		r.W.Logf("## %s", s)
	}
}

// Knob records a swarm parameter.
func (r *Run) Knob(name string, v any) {
	r.Knobs[name] = fmt.Sprint(v)
}

// Probe counts a rare condition.
func (r *Run) Probe(name string) { r.Probes[name]++ }

// State records a state digest reached.
func (r *Run) State(d string) { r.States[d] = true }

// NewWorld creates the world of this run.
func (r *Run) NewWorld(cfg sched.Config) *sched.World {
	cfg.Trace = r.TraceOn
	r.W = sched.NewWorld(r.Src, cfg)
	return r.W
}

// CheckHealth turns panics and deadlocks of simulated tasks into violations.
func (r *Run) CheckHealth(where string) {
	if r.W == nil {
		return
	}
	for _, t := range r.W.Panics() {
		msg := fmt.Sprint(t.Panic)
		r.Failf("panic", panicClass(msg, t.Stack), "%s: task %s panicked: %v\n%s", where, t.Name, t.Panic, trimStack(t.Stack))
	}
	if dl := r.W.Deadlocked(); len(dl) > 0 {
		var names []string
		for _, t := range dl {
			names = append(names, t.Name+":"+t.PendingKind())
		}
		r.Failf("deadlock", "", "%s: nothing can run and tasks are blocked on %v", where, names)
	}
	if r.W.Livelocked {
		// the workload was over: only goroutines of the code under test (and the
		// kernel actors feeding them) were running, and they never came to rest
		var busy []string
		for _, t := range r.W.LiveTasks() {
			busy = append(busy, t.Name+":"+t.PendingKind())
		}
		r.Failf("livelock", "", "%s: after the workload ended the goroutines of the library did not come to rest within the step budget (%d steps, %v of simulated time allowed for timers); still running: %v", where, r.W.Step, sched.QuiesceHorizon, busy)
	}
	if r.W.Overrun {
		r.Discard = "step budget exceeded"
		if os.Getenv("VERIF_DEBUG_DISCARD") != "" {
			var busy []string
			for _, t := range r.W.LiveTasks() {
				busy = append(busy, t.Name+":"+t.PendingKind())
			}
			fmt.Fprintf(os.Stderr, "discard at %s step %d now %v live %v\n", where, r.W.Step, r.W.Now(), busy)
		}
		panic(abortRun{})
	}
}

func panicClass(msg, stack string) string {
	// the innermost library frame identifies the cause
	for _, line := range strings.Split(stack, "\n") {
		if strings.Contains(line, "container-device-interface/") && strings.Contains(line, "(") && !strings.Contains(line, "verif/") {
			f := strings.TrimSpace(line)
			if i := strings.LastIndex(f, "/"); i >= 0 {
				f = f[i+1:]
			}
			if i := strings.LastIndex(f, "("); i > 0 {
				f = f[:i]
			}
			return f
		}
	}
	if len(msg) > 40 {
		msg = msg[:40]
	}
	return msg
}

func trimStack(s string) string {
	lines := strings.Split(s, "\n")
	var out []string
	for i := 0; i+1 < len(lines); i++ {
		if strings.Contains(lines[i], "container-device-interface/") {
			out = append(out, lines[i], lines[i+1])
		}
	}
	if len(out) > 16 {
		out = out[:16]
	}
	return strings.Join(out, "\n")
}

// Scenario is one engine entry point.
type Scenario func(r *Run)

// Result of executing one tape.
type Result struct {
	Viol         *Violation
	Tape         []uint32
	Spans        []choice.Span
	Stats        sched.Stats
	Faults       []sched.FaultRec
	TraceHash    string
	Trace        []string
	Notes        []string
	Knobs        map[string]string
	Probes       map[string]int
	States       map[string]bool
	SchedSig     string
	Discard      string
	KnownHit     map[string]int
	Steps        int
	Trivial      bool
	HarnessPanic string
}

// Opts for executing a run.
type Opts struct {
	Prop     string
	Scenario string
	Tier     string
	Trace    bool
	Known    map[string]bool
}

// Execute runs one scenario on one choice source.
func Execute(sc Scenario, src *choice.Source, o Opts) (res Result) {
	r := &Run{Prop: o.Prop, Scenario: o.Scenario, Tier: o.Tier, Src: src, TraceOn: o.Trace, Knobs: map[string]string{},
		Probes: map[string]int{}, States: map[string]bool{}, Known: o.Known, KnownHit: map[string]int{}}
	simrt.ResetAll()
	simtime.Reset()
	func() {
		defer func() {
			if x := recover(); x != nil {
				if _, ok := x.(abortRun); !ok {
					res.HarnessPanic = fmt.Sprintf("%v\n%s", x, debug.Stack())
				}
			}
		}()
		sc(r)
		r.CheckHealth("end of run")
	}()
	if r.W != nil {
		func() {
			defer func() {
				if x := recover(); x != nil {
					res.HarnessPanic = fmt.Sprintf("close: %v\n%s", x, debug.Stack())
				}
			}()
			r.W.Close()
		}()
		res.Stats = r.W.Stats
		res.Faults = r.W.Faults
		res.TraceHash = r.W.TraceHash()
		res.Trace = r.W.Trace
		res.Steps = r.W.Step
		for k, v := range r.W.Stats.Probes {
			r.Probes[k] += v
		}
		if r.W.FS.Coalesced > 0 {
			r.Probes["inotify_event_coalesced"]++
		}
		for _, h := range r.W.FS.Hist {
			switch {
			case h.Op == "inotify_init" && h.Err == syscall.EMFILE:
				r.Probes["emfile_on_newwatcher"]++
			case h.Op == "open" && h.Err == syscall.ENOENT && (strings.HasSuffix(h.Path, ".json") || strings.HasSuffix(h.Path, ".yaml")) && h.Proc == "app":
				r.Probes["file_vanished_between_listing_and_reading"]++
			case h.Op == "inotify_add_watch" && h.Err == 0 && h.Step > 0 && strings.HasPrefix(h.Proc, "app") && h.N > 1:
				r.Probes["directory_readded_to_watch"]++
			}
		}
	}
	res.Viol = r.Viol
	res.Tape = src.Tape()
	res.Spans = src.Spans
	res.Notes = r.Notes
	res.Knobs = r.Knobs
	res.Probes = r.Probes
	res.States = r.States
	res.Discard = r.Discard
	res.KnownHit = r.KnownHit
	res.Trivial = r.Trivial
	h := sha256.New()
	fmt.Fprintf(h, "%s|%v|", res.TraceHash, res.Notes)
	res.SchedSig = hex.EncodeToString(h.Sum(nil))[:16]
	return res
}

// ---- worker loop ----------------------------------------------------------------

// Replay is the content of a replay file.
type Replay struct {
	Property  string             `json:"property"`
	Scenario  string             `json:"scenario"`
	Tier      string             `json:"tier"`
	Seed      uint64             `json:"seed"`
	RunSeed   uint64             `json:"run_seed"`
	Violation Violation          `json:"violation"`
	Tape      []uint32           `json:"tape"`
	OrigLen   int                `json:"original_tape_length"`
	TraceHash string             `json:"trace_hash"`
	Knobs     map[string]string  `json:"knobs"`
	Notes     []string           `json:"run"`
	Faults    []string           `json:"faults"`
	Trace     []string           `json:"trace"`
	Shrink    choice.ShrinkStats `json:"shrink"`
}

// WorkerOut is what one worker process reports.
type WorkerOut struct {
	Worker      int               `json:"worker"`
	Runs        int               `json:"runs"`
	Discarded   map[string]int    `json:"discarded"`
	NonTrivial  int               `json:"nontrivial"`
	Sigs        []string          `json:"sigs"`   // distinct run signatures of non-trivial runs (capped)
	States      []string          `json:"states"` // distinct state digests (capped)
	Steps       int               `json:"steps"`
	Syscalls    int               `json:"syscalls"`
	Switches    int               `json:"switches"`
	Preempts    int               `json:"preempts"`
	ActorSteps  int               `json:"actor_steps"`
	Faults      map[string]int    `json:"faults"`
	Probes      map[string]int    `json:"probes"`
	KnownHit    map[string]int    `json:"known_hit"`
	Seeds       []uint64          `json:"seeds"`
	Samples     []json.RawMessage `json:"samples"`
	Violations  []Replay          `json:"violations"`
	Flaky       []string          `json:"flaky"`
	HarnessErrs []string          `json:"harness_errors"`
	WallS       float64           `json:"wall_s"`
	Draws       int               `json:"draws"`
	Hashes      []string          `json:"hashes,omitempty"`
	SweepRuns   int               `json:"sweep_runs"`
	SweepTotal  int               `json:"sweep_total"`
}

// Enumerations maps a scenario to a function producing the tapes of a
// complete systematic sweep, executed by worker 0 before the seeded search.
var Enumerations = map[string]func() [][]uint32{}

// WorkerCfg configures the loop.
type WorkerCfg struct {
	Opts
	Seed      uint64
	Worker    int
	Workers   int
	Duration  time.Duration
	MaxRuns   int
	ShrinkFor time.Duration
	MaxViol   int
	Hashes    bool // record "run seed:trace hash:tape length:violation" for every run (determinism self-test)
	NoSweep   bool
}

type sample struct {
	RunSeed uint64            `json:"run_seed"`
	Kind    string            `json:"kind"`
	Knobs   map[string]string `json:"knobs"`
	Run     []string          `json:"run"`
	Faults  []string          `json:"faults,omitempty"`
	Steps   int               `json:"steps"`
	Trace   []string          `json:"trace_excerpt,omitempty"`
}

func faultStrings(fs []sched.FaultRec) []string {
	var out []string
	for _, f := range fs {
		s := fmt.Sprintf("step %d %s %s %s", f.Step, f.Task, f.Op, f.Path)
		switch {
		case f.Kill:
			s += " KILL"
		case f.Err != 0:
			s += " " + f.Err.Error()
			if f.Part > 0 {
				s += fmt.Sprintf(" after %d bytes", f.Part)
			}
		default:
			s += fmt.Sprintf(" short write %d", f.Part)
		}
		out = append(out, s)
	}
	return out
}

const capSet = 200000

var (
	wdSeed   atomic.Uint64
	wdStamp  atomic.Int64
	wdPhase  atomic.Value
	wdActive atomic.Bool
)

// watchdog aborts the process with a diagnostic when a single run makes no
// progress for a long time (a bug in the harness or simulator, never a verdict).
func watchdog(limit time.Duration) {
	for {
		time.Sleep(2 * time.Second)
		if !wdActive.Load() {
			continue
		}
		if time.Since(time.Unix(0, wdStamp.Load())) > limit {
			buf := make([]byte, 1<<20)
			n := runtime.Stack(buf, true)
			fmt.Fprintf(os.Stderr, "WATCHDOG: run_seed=%d phase=%v made no progress for %v\n%s\n", wdSeed.Load(), wdPhase.Load(), limit, buf[:n])
			os.Exit(3)
		}
	}
}

func wdMark(seed uint64, phase string) {
	wdSeed.Store(seed)
	wdPhase.Store(phase)
	wdStamp.Store(time.Now().UnixNano())
	wdActive.Store(true)
}

// Worker runs the loop and returns the report.
func Worker(sc Scenario, cfg WorkerCfg) WorkerOut {
	start := time.Now()
	go watchdog(45 * time.Second)
	out := WorkerOut{Worker: cfg.Worker, Discarded: map[string]int{}, Faults: map[string]int{}, Probes: map[string]int{}, KnownHit: map[string]int{}}
	sigs := map[string]bool{}
	states := map[string]bool{}
	seenViol := map[string]bool{}
	var sFree, sFault, sLong *sample
	var sweep [][]uint32
	if f := Enumerations[cfg.Scenario]; f != nil && !cfg.NoSweep {
		all := f()
		// the sweep is split over the workers
		for i, t := range all {
			if cfg.Workers <= 1 || i%cfg.Workers == cfg.Worker {
				sweep = append(sweep, t)
			}
		}
		out.SweepTotal = len(all)
	}
	for k := 0; ; k++ {
		if cfg.MaxRuns > 0 && k >= cfg.MaxRuns {
			break
		}
		if k >= len(sweep) && cfg.Duration > 0 && time.Since(start) > cfg.Duration {
			break
		}
		runSeed := choice.Mix(cfg.Seed, uint64(cfg.Worker), uint64(k))
		wdMark(runSeed, "run")
		var res Result
		if k < len(sweep) {
			res = Execute(sc, choice.Replay(sweep[k]), cfg.Opts)
			out.SweepRuns++
		} else {
			res = Execute(sc, choice.New(runSeed), cfg.Opts)
		}
		out.Runs++
		out.Draws += len(res.Tape)
		if cfg.Hashes {
			v := ""
			if res.Viol != nil {
				v = res.Viol.Sig
			}
			out.Hashes = append(out.Hashes, fmt.Sprintf("%d:%s:%d:%d:%s:%s", runSeed, res.TraceHash, len(res.Tape), res.Steps, v, res.Discard))
		}
		if len(out.Seeds) < 8 {
			out.Seeds = append(out.Seeds, runSeed)
		}
		if res.HarnessPanic != "" {
			if len(out.HarnessErrs) < 5 {
				out.HarnessErrs = append(out.HarnessErrs, fmt.Sprintf("run_seed=%d: %s", runSeed, res.HarnessPanic))
			}
			continue
		}
		for s, n := range res.KnownHit {
			out.KnownHit[s] += n
		}
		if res.Discard != "" {
			out.Discarded[res.Discard]++
			if res.Viol == nil {
				continue
			}
		}
		out.Steps += res.Stats.Steps
		out.Syscalls += res.Stats.Syscalls
		out.Switches += res.Stats.Switches
		out.Preempts += res.Stats.Preempts
		out.ActorSteps += res.Stats.ActorSteps
		for f, n := range res.Stats.Faults {
			out.Faults[f] += n
		}
		for p, n := range res.Probes {
			out.Probes[p] += n
		}
		if !res.Trivial {
			out.NonTrivial++
			if len(sigs) < capSet {
				sigs[res.SchedSig] = true
			}
		}
		for s := range res.States {
			if len(states) < capSet {
				states[s] = true
			}
		}
		mk := func(kind string) *sample {
			return &sample{RunSeed: runSeed, Kind: kind, Knobs: res.Knobs, Run: res.Notes, Faults: faultStrings(res.Faults), Steps: res.Steps}
		}
		if res.Viol == nil {
			if len(res.Faults) == 0 && sFree == nil && !res.Trivial {
				sFree = mk("fault-free")
			}
			if len(res.Faults) > 0 && sFault == nil {
				sFault = mk("with faults")
			}
			if !res.Trivial && (sLong == nil || res.Steps > sLong.Steps) {
				sLong = mk("longest")
			}
			continue
		}
		// ---- a violation ----
		if seenViol[res.Viol.Sig] {
			continue
		}
		seenViol[res.Viol.Sig] = true
		sig := res.Viol.Sig
		runTape := func(t []uint32) choice.Outcome {
			wdMark(runSeed, "shrink")
			r2 := Execute(sc, choice.Replay(t), cfg.Opts)
			return choice.Outcome{Interesting: r2.Viol != nil && r2.Viol.Sig == sig, Tape: r2.Tape, Spans: r2.Spans}
		}
		best, st, ok := choice.Shrink(res.Tape, runTape, 4000, time.Now().Add(cfg.ShrinkFor))
		if !ok {
			out.Flaky = append(out.Flaky, fmt.Sprintf("run_seed=%d sig=%s: violation did not reproduce from its own tape (simulator nondeterminism)", runSeed, sig))
			continue
		}
		o2 := cfg.Opts
		o2.Trace = true
		final := Execute(sc, choice.Replay(best), o2)
		if final.Viol == nil || final.Viol.Sig != sig {
			out.Flaky = append(out.Flaky, fmt.Sprintf("run_seed=%d sig=%s: minimised tape did not reproduce", runSeed, sig))
			continue
		}
		rp := Replay{Property: cfg.Prop, Scenario: cfg.Scenario, Tier: cfg.Tier, Seed: cfg.Seed, RunSeed: runSeed, Violation: *final.Viol,
			Tape: best, OrigLen: len(res.Tape), TraceHash: final.TraceHash, Knobs: final.Knobs, Notes: final.Notes,
			Faults: faultStrings(final.Faults), Trace: final.Trace, Shrink: st}
		out.Violations = append(out.Violations, rp)
		if len(out.Violations) >= cfg.MaxViol {
			break
		}
	}
	for _, s := range []*sample{sFree, sFault, sLong} {
		if s != nil {
			b, _ := json.Marshal(s)
			out.Samples = append(out.Samples, b)
		}
	}
	for s := range sigs {
		out.Sigs = append(out.Sigs, s)
	}
	sort.Strings(out.Sigs)
	for s := range states {
		out.States = append(out.States, s)
	}
	sort.Strings(out.States)
	out.WallS = time.Since(start).Seconds()
	return out
}

// ReplayFile re-executes a replay file and reports whether it reproduces.
func ReplayFile(sc Scenario, path string, known map[string]bool) (string, bool, error) {
	b, err := os.ReadFile(path)
	if err != nil {
		return "", false, err
	}
	var rp Replay
	if err := json.Unmarshal(b, &rp); err != nil {
		return "", false, err
	}
	res := Execute(sc, choice.Replay(rp.Tape), Opts{Prop: rp.Property, Scenario: rp.Scenario, Tier: rp.Tier, Trace: true})
	var sb strings.Builder
	for _, l := range res.Trace {
		sb.WriteString(l)
		sb.WriteString("\n")
	}
	if res.HarnessPanic != "" {
		return sb.String(), false, fmt.Errorf("harness panic: %s", res.HarnessPanic)
	}
	if res.Viol == nil {
		fmt.Fprintf(&sb, "no violation on this tree (recorded: %s)\n", rp.Violation.Sig)
		return sb.String(), false, nil
	}
	fmt.Fprintf(&sb, "violation: %s\n%s\n", res.Viol.Sig, res.Viol.Msg)
	same := res.Viol.Sig == rp.Violation.Sig
	if same && res.TraceHash != rp.TraceHash {
		fmt.Fprintf(&sb, "note: same violation class, trace hash differs (%s vs recorded %s): the code changed since the file was written\n", res.TraceHash, rp.TraceHash)
	}
	return sb.String(), same, nil
}
