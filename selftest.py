#!/usr/bin/env python3
"""Determinism self-test of the simulator.

For every scenario, the same seeds are executed in separate OS processes
under GOMAXPROCS 1, 4 and 16 (twice each); the per-run trace hashes (a hash of
every scheduler step, operation, result and harness note), tape lengths, step
counts and verdicts must be identical across all executions.  Exit 0: all
identical; exit 2: a divergence (a source of nondeterminism escaped the
simulator) - never a property verdict.
"""
import json, os, subprocess, sys, importlib.util, importlib.machinery

VERIF = os.path.dirname(os.path.abspath(__file__))
loader = importlib.machinery.SourceFileLoader("check", os.path.join(VERIF, "check"))
spec = importlib.util.spec_from_loader("check", loader)
check = importlib.util.module_from_spec(spec)
loader.exec_module(check)

def main():
    quick = len(sys.argv) > 1 and sys.argv[1] == "quick"
    runs = 40 if quick else 300
    seeds = [1, 7] if quick else [1, 7, 123456789]
    bad = 0
    total = 0
    for race in (False, True):
        S = check.scratch()
        engine, _ = check.build_engine(S, race)
        props = [p for p, c in check.PROPS.items() if c["race"] == race]
        for prop in props:
            sc = check.PROPS[prop]["scenario"]
            for seed in seeds:
                ref = None
                procs = []
                for gmp in (1, 4, 16, 1, 4, 16):
                    out = f"{S}/st-{sc}-{seed}-{gmp}-{len(procs)}.json"
                    env = dict(check.ENV, GOMAXPROCS=str(gmp))
                    cmd = [engine, "-scenario", sc, "-prop", prop, "-seed", str(seed), "-worker", "0", "-runs", str(runs),
                           "-duration", "0s", "-hashes", "-nosweep", "-out", out, "-shrink", "1s"]
                    procs.append((subprocess.Popen(cmd, env=env, stdout=subprocess.DEVNULL, stderr=subprocess.PIPE), out, gmp))
                for p, out, gmp in procs:
                    _, err = p.communicate()
                    if p.returncode != 0:
                        print(f"selftest: {prop} seed {seed} GOMAXPROCS={gmp}: engine exited {p.returncode}: {err.decode()[-500:]}")
                        bad += 1
                        continue
                    h = json.load(open(out)).get("hashes") or []
                    total += len(h)
                    if ref is None:
                        ref = h
                    elif h != ref:
                        bad += 1
                        for a, b in zip(ref, h):
                            if a != b:
                                print(f"selftest: DIVERGENCE {prop} seed {seed} GOMAXPROCS={gmp}: {a} vs {b}")
                                break
                        else:
                            print(f"selftest: DIVERGENCE {prop} seed {seed}: different number of runs {len(ref)} vs {len(h)}")
            print(f"selftest: {prop}: {len(seeds)} seeds x {runs} runs x 6 executions compared")
    if bad:
        print(f"selftest: {bad} divergences")
        sys.exit(2)
    print(f"selftest: deterministic ({total} run executions compared)")

if __name__ == "__main__":
    main()
