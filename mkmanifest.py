#!/usr/bin/env python3
"""Regenerates MANIFEST.json from the tables below (keeps it valid at all times)."""
import json, os
V = os.path.dirname(os.path.abspath(__file__))

TECH = "deterministic simulation with fault injection: seeded search over schedules, faults and histories on a simulated kernel, checked against a reference model"

CLAIMED = {
 "C01": dict(engine="dirmodel", path="harness/scen/dirmodel.go", design="DESIGN.md section 4 (C01)",
   text="Seeded exploration of directory histories (0-4 directories incl. missing/repeated/prefix-related, populations of valid/invalid/non-Spec files - in half of the runs all of one kind with two device names, in one run in thirty a crowded directory of 130-250 entries - 1-8 steps of creates, rewrites, temp+rename replacements, removals, renames, moves, mkdir/rm -r) in manual and automatic refresh mode on the simulated kernel; after every refresh point every query result (ListDevices, GetDevice path/priority/definition, ListVendors, ListClasses, GetVendorSpecs, GetErrors) is compared with an executable reference model of the precedence rule. Exploration is the right level: the space of histories is unbounded and the oracle is exact per run.",
   note="Trusted: the simulator (sim/memfs, sim/fsnotify stub, sim/sched), the rewriter, the reference model and the validity-by-construction generator; samples the space."),
 "C13": dict(engine="dirmodel", path="harness/scen/dirmodel.go", design="DESIGN.md section 4 (C13)",
   text="Seeded exploration of fault placements and repairs on the simulated kernel: invalid files of 15 kinds, unreadable files (non-root credential), dangling/looping/directory symlinks, configured directories that are missing, regular files, below a non-directory, unreadable or unsearchable, in every position of a 1-4 entry directory list; in manual mode additionally transient EIO/EMFILE injected into the scanner's own lstat/open/getdents/read calls and a concurrent mutator inside the scan window. After every Refresh(): isolation (every device of a readable valid file in a scannable directory resolves as the model says), reporting (entry for every failing Spec file, none for a healthy one), the Refresh() result, and repair (a clean Refresh clears every entry whose cause is gone).",
   note="Trusted: simulator, model, generator. The relaxation under injected faults is computed from the exact calls the simulator failed (per directory index); fault-free and faulty refreshes are checked separately. Transient faults and the concurrent mutator are manual-mode only (in auto mode an explicit Refresh() does not rescan)."),
 "C16": dict(engine="writeremove", path="harness/scen/c16.go", design="DESIGN.md section 4 (C16)",
   text="Seeded exploration of configurations (1-4 directories, last one possibly missing with missing parents, pre-existing Specs incl. lower-priority definitions of the same devices and similarly named siblings), names from all four generator functions with hostile transient ids ('/', '..', dots, extensions, blanks, drawn ids that bring the file name to 200-255 bytes), vendors/classes with dots and .json/.yaml endings, and sequences of WriteSpec/RemoveSpec (a third of them not followed by a refresh, the same Spec written again under the same name, files removed by other processes, a non-empty directory squatting under a name, symlinked pre-existing entries); the simulated disk records every system call, so confinement ('touches nothing else') is checked on the complete history including effects undone before return. A quarter of the runs inject write faults (ENOSPC/EIO/EDQUOT/EMFILE, partial writes): then only confinement and target-is-old-or-new are required.",
   note="Trusted: simulator, model; the expected target path is computed from the property statement (last directory + name, .yaml appended unless the name ends in .json/.yaml)."),
 "C10": dict(engine="publish", path="harness/scen/c10.go", design="DESIGN.md section 4 (C10)",
   text="A complete, enumerated single-fault sweep (18 scenarios x every system call of the writer x kill / every errno of that call / 4 write-offset classes, incl. deferred write-back errors at close) plus seeded search over interleavings of the writer with a plain reader, a manual cache, an auto-refreshed cache and a second writer under 0-2 faults, kills and short writes. The invariant 'every Spec-named entry is exactly a complete previous or complete new Spec' is evaluated by an omniscient observer after every scheduler step (every instant between two system calls), reader observations during the write and a fresh scan after the end are checked too. New content is a strict superset of the old so that a YAML prefix is itself loadable.",
   note="Process-crash atomicity (every completed system call survives); power-loss atomicity is not claimed. Trusted: simulated kernel semantics of open/write/close/renameat2/unlink."),
 "C14": dict(engine="hostnodes", path="harness/scen/c14.go", design="DESIGN.md section 4 (C14)",
   text="Seeded exploration of histories of the host: device nodes of every type (char, block, fifo, regular file, absent) exist only on the simulated disk (the sandbox cannot mknod), cached Specs carry device-node edits in every specification state, and a run interleaves injections (half repeating an earlier request into an equal OCI spec, some into an OCI spec that already received an injection), Device/Spec.ApplyEdits, host-node changes (renumber, retype, remove, replace), writing a cached Spec back, and refreshes. After every step the JSON image of every cached Spec and device read through the query API is compared with the image taken before the first step; host-derived attributes are compared with the current simulated node; equal requests with no host change must give equal results.",
   note="Sequential (one client); manual refresh mode only, because writing a copy of a cached Spec into a watched directory would legitimately change resolution. Trusted: simulated lstat/mknod."),
 "C11": dict(engine="converge", path="harness/scen/c11.go", design="DESIGN.md section 4 (C11)",
   text="Seeded search over histories x pacings: 1-12 file-system operations of every kind the property lists (plus symbolic links; one run in thirty starts with a crowded directory of 150-250 Specs that is removed as a tree, recreated and changed again), executed by 1-2 mutator tasks one system call at a time, interleaved by the seeded scheduler with the library's watcher goroutine, the fsnotify reader (batch reads of the inotify queue, tail coalescing, the lstat-at-delivery rule, watch removal on rmdir) and polling clients, with starvation knobs. Bounded liveness with an exact notion of 'changes have ceased': quiescence means nothing can happen any more (timers, if the code has any, are given 60 s of simulated time per quiescence; a world that never comes to rest is a livelock violation); after quiescence ONE query of a drawn kind (any single kind of query must bring the cache up to date), quiescence, then the observed query round starting with the same kind must equal (a) a cache freshly built by the real code from the final disk and (b) the reference model.",
   note="Trusted: the inotify model (sim/memfs events per inotify(7)) and the fsnotify v1.5.1 stub reproduce what the real kernel/library deliver; the inotify queue overflow (event loss) is a fault knob; renaming a configured directory and changes made through links that live outside the watched directories are outside the deciding configuration."),
 "C20": dict(engine="reconfigure", path="harness/scen/c20.go", design="DESIGN.md section 4 (C20)",
   text="Seeded search over option histories (1-6, thorough up to 40 Configure calls: directory lists that overlap, repeat, are disjoint or missing; auto-refresh on/off) on a NewCache instance or the package-level default cache (first touched by Configure, GetDefaultCache or a query), interleaved by the seeded scheduler with a mutator task, a polling client, every stale watcher goroutine an earlier configuration left behind, and windows of descriptor exhaustion around Configure calls (strict: another part of the process takes every freed descriptor; loose: it does not) or opened at arbitrary system calls by a squeezer task; on the default cache 1-3 Configure calls precede the first use. At quiescence the reconfigured cache is compared with a new cache created with the final options in a second simulated process (devices, definitions, Spec-file errors, directory errors, directory list), what the cache holds on the simulated kernel's own tables (library goroutines, inotify instances, poller descriptors, watches) is compared with the new cache's and must not grow over four more reconfigurations to the same options, a manual cache must not change by itself, and a probe change in every final directory must be noticed without Refresh() iff auto-refresh is on.",
   note="Two genuine defects were found by this check and are repaired (D9, D13; known_findings.json lists them as fixed, which suppresses nothing). Resource bounds follow the property's wording: no design is prescribed, what the cache holds is compared with what a new cache with the final options holds (constant allowance) and must not grow over further reconfigurations. Ordinary file descriptors left open are not asserted (a forgotten Close is reclaimed by the os.File finalizer in real life)."),
 "C12": dict(engine="concurrent", path="harness/scen/c12.go", design="DESIGN.md section 4 (C12)",
   text="Seeded schedule exploration of 2-4 client tasks running drawn programs over the whole public cache API together with the watcher goroutines (including stale ones), on a build in which the rewriter reports every struct-field, package-variable and map access of pkg/cdi (341 sites) to a vector-clock happens-before race detector (the Go race detector is blind under a cooperative scheduler) and makes accesses preemption points. Four oracles: data races (interleaving-independent), deadlock/panic (exact: quiescence with a task blocked on a lock), one-snapshot (every result equals the resolution of one (configuration, disk state) pair that existed so far, with a file switching atomically between absent/A/B with overlapping devices and different markers), and linearizability of manual-mode histories stamped with scheduler steps against a small model, decided by porcupine.",
   technique="deterministic simulation: seeded schedule search with a vector-clock race detector over rewriter-instrumented accesses, snapshot oracle, porcupine linearizability check",
   note="The race detector sees struct fields, package variables and maps of the rewritten packages; slice elements and third-party code are not tracked. Trusted: rewriter R6, simsync happens-before edges, porcupine."),
}

PURE = {
 "C02": "pure function of cache content, OCI spec and request order: no schedule, fault, crash point or environment history in the statement; deterministic simulation has nothing to decide",
 "C03": "Apply is a pure function of (OCI spec, edit list, host nodes); the only environment clause (host-stat fill-in) is exercised over host histories under C14",
 "C04": "all-or-nothing on unresolvable names is a pure function of cache content and request list",
 "C05": "acceptance of a Spec document is a pure predicate on the document",
 "C06": "minimum version is a pure function of the Spec value",
 "C07": "the name grammar is a pure predicate on strings",
 "C08": "universal over input values (byte strings, maps, names, documents); no schedule or fault dimension. Panics met inside any engine are still reported under that engine's property (two were found and fixed that way)",
 "C09": "write-then-read equality is a pure function of the Spec value and the two encoders",
 "C15": "annotation helpers are pure functions on strings and maps",
 "C17": "schema verdicts are pure functions of the document and schema",
 "C18": "agreement of two validators is a pure statement over Spec values",
 "C19": "compares separately built CLI processes with library calls on the same inputs; nothing for a scheduler or fault injector to decide, and the binaries cannot run on the simulated kernel",
}
PENDING = "a simulation target per DESIGN.md section 2; its engine is not built yet in this revision, so it is not claimed"
ALL = ["C%02d" % i for i in range(1, 21)]

checks = []
engines = {}
for pid, c in sorted(CLAIMED.items()):
    checks.append({
        "property_id": pid,
        "quick_cmd": f"./check {pid} quick",
        "thorough_cmd": f"./check {pid} thorough",
        "evidence_file": f"/verif/evidence/{pid}.json",
        "replay_cmd_template": "./check replay {path}",
        "engine": c["engine"],
        "level_claimed": {"category": "exploration", "text": c["text"], "design_ref": c["design"]},
        "level_note": c["note"],
        "technique": c.get("technique", TECH),
    })
    e = engines.setdefault(c["engine"], {"name": c["engine"], "path": c["path"], "serves_properties": [], "kind_free_text": "seeded deterministic simulation scenario on the simulated kernel"})
    e["serves_properties"].append(pid)
na = []
for pid in ALL:
    if pid in CLAIMED:
        continue
    na.append({"property_id": pid, "reason": PURE.get(pid, PENDING)})
man = {
 "version": 1,
 "setup_cmd": "./check build",
 "hooks": {
   "guard": "none (no hooks in /repo)",
   "enable": "No source hooks. Each check copies /repo's working tree to a scratch directory and rewrites the copy mechanically (tools/simrewrite: os, path/filepath, io/ioutil, x/sys/unix, syscall, sync, sync/atomic, time, math/rand, math/rand/v2, crypto/rand imports re-pointed at sim/*; go statements, every channel operation and select, and map ranges routed through the scheduler; for C12 every field, package-variable and map access instrumented; fsnotify replaced through a go.mod replace directive).",
   "baseline_off_cmd": "/verif/baseline.sh",
   "source_commits": [],
   "add_only": True,
 },
 "engines": list(engines.values()),
 "checks": checks,
 "not_applicable": na,
 "notes": "Exit codes of every check: 0 held, 1 VIOLATION line, 2 build/machinery trouble. VERIF_SEED selects the seed; VERIF_DURATION (seconds) overrides the per-tier wall-clock budget; VERIF_WORKERS the number of worker processes.",
}
json.dump(man, open(os.path.join(V, "MANIFEST.json"), "w"), indent=1)
print("MANIFEST.json written:", len(checks), "checks,", len(na), "not applicable")
