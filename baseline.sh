#!/bin/bash
# Runs the repository's own test suite (all modules) with no build tag, i.e.
# with every verification hook off.  There are no hooks in /repo, so this is
# simply the pinned baseline command.
export GOFLAGS=-mod=mod GOPROXY=off GOSUMDB=off GOTOOLCHAIN=local
rc=0
for m in . schema cmd/cdi cmd/validate specs-go; do
  (cd /repo/$m && go test -vet=off -count=1 -timeout 25m ./...) || rc=1
done
exit $rc
