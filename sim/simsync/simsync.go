// Package simsync replaces package sync in the scratch copy.  Blocking is
// modelled, not executed: a task whose Lock cannot proceed is simply not
// enabled, so the scheduler sees deadlocks as quiescence with blocked tasks.
// Every operation maintains the vector clocks used by the happens-before
// race detector.  Outside a simulated world the primitives fall back to the
// real ones.
package simsync

import (
	real "sync"

	"verif/sim/sched"
)

type (
	Locker = real.Locker
	Pool   = real.Pool
	Map    = real.Map
)

// Mutex is a simulated sync.Mutex.
type Mutex struct {
	real  real.Mutex
	held  bool
	owner *sched.Task
}

func (m *Mutex) Lock() {
	w := sched.Cur()
	if w == nil {
		m.real.Lock()
		return
	}
	if w.Inert() {
		return
	}
	w.Yield(&sched.Op{Kind: "lock", Path: "mutex", Block: true, Enabled: func() bool { return !m.held }})
	m.held = true
	m.owner = w.CurTask()
	w.Acquire(m)
}

func (m *Mutex) TryLock() bool {
	w := sched.Cur()
	if w == nil {
		return m.real.TryLock()
	}
	if w.Inert() {
		return false
	}
	w.Yield(&sched.Op{Kind: "trylock", Path: "mutex"})
	if m.held {
		return false
	}
	m.held = true
	m.owner = w.CurTask()
	w.Acquire(m)
	return true
}

func (m *Mutex) Unlock() {
	w := sched.Cur()
	if w == nil {
		m.real.Unlock()
		return
	}
	if w.Inert() {
		return
	}
	if !m.held {
		panic("sync: unlock of unlocked mutex")
	}
	w.Release(m)
	m.held = false
	m.owner = nil
}

// Held reports whether the mutex is held (for the harness).
func (m *Mutex) Held() bool { return m.held }

// RWMutex is a simulated sync.RWMutex.
type RWMutex struct {
	real    real.RWMutex
	writer  bool
	readers int
	waiting []*sched.Task // tasks blocked in Lock: as in Go, a waiting writer keeps new readers out
}

func (m *RWMutex) writerWaiting() bool {
	for _, t := range m.waiting {
		if t.Alive() {
			return true
		}
	}
	return false
}

func (m *RWMutex) Lock() {
	w := sched.Cur()
	if w == nil {
		m.real.Lock()
		return
	}
	if w.Inert() {
		return
	}
	me := w.CurTask()
	m.waiting = append(m.waiting, me)
	w.Yield(&sched.Op{Kind: "lock", Path: "rwmutex", Block: true, Enabled: func() bool { return !m.writer && m.readers == 0 }})
	keep := m.waiting[:0]
	for _, t := range m.waiting {
		if t != me {
			keep = append(keep, t)
		}
	}
	m.waiting = keep
	m.writer = true
	w.Acquire(m)
}

func (m *RWMutex) Unlock() {
	w := sched.Cur()
	if w == nil {
		m.real.Unlock()
		return
	}
	if w.Inert() {
		return
	}
	if !m.writer {
		panic("sync: Unlock of unlocked RWMutex")
	}
	w.Release(m)
	m.writer = false
}

func (m *RWMutex) RLock() {
	w := sched.Cur()
	if w == nil {
		m.real.RLock()
		return
	}
	if w.Inert() {
		return
	}
	w.Yield(&sched.Op{Kind: "rlock", Path: "rwmutex", Block: true, Enabled: func() bool { return !m.writer && !m.writerWaiting() }})
	m.readers++
	w.Acquire(m)
}

func (m *RWMutex) RUnlock() {
	w := sched.Cur()
	if w == nil {
		m.real.RUnlock()
		return
	}
	if w.Inert() {
		return
	}
	if m.readers <= 0 {
		panic("sync: RUnlock of unlocked RWMutex")
	}
	w.Release(m)
	m.readers--
}

func (m *RWMutex) TryLock() bool {
	w := sched.Cur()
	if w == nil {
		return m.real.TryLock()
	}
	if w.Inert() || m.writer || m.readers > 0 {
		return false
	}
	m.writer = true
	w.Acquire(m)
	return true
}

func (m *RWMutex) TryRLock() bool {
	w := sched.Cur()
	if w == nil {
		return m.real.TryRLock()
	}
	if w.Inert() || m.writer {
		return false
	}
	m.readers++
	w.Acquire(m)
	return true
}

func (m *RWMutex) RLocker() Locker { return (*rlocker)(m) }

type rlocker RWMutex

func (r *rlocker) Lock()   { (*RWMutex)(r).RLock() }
func (r *rlocker) Unlock() { (*RWMutex)(r).RUnlock() }

// Once is a simulated sync.Once.
type Once struct {
	real    real.Once
	done    bool
	running bool
}

func (o *Once) Do(f func()) {
	w := sched.Cur()
	if w == nil {
		o.real.Do(f)
		return
	}
	if w.Inert() {
		return
	}
	if o.done {
		w.Acquire(o)
		return
	}
	w.Yield(&sched.Op{Kind: "once", Path: "once", Block: true, Enabled: func() bool { return !o.running }})
	if o.done {
		w.Acquire(o)
		return
	}
	o.running = true
	defer func() {
		o.running = false
		o.done = true
		if !w.Inert() {
			w.Release(o)
		}
	}()
	f()
}

// Reset makes the Once fresh again (used between simulated runs).
func (o *Once) Reset() { *o = Once{} }

// WaitGroup is a simulated sync.WaitGroup.
type WaitGroup struct {
	real real.WaitGroup
	n    int
}

func (g *WaitGroup) Add(delta int) {
	w := sched.Cur()
	if w == nil {
		g.real.Add(delta)
		return
	}
	if w.Inert() {
		return
	}
	g.n += delta
	if g.n < 0 {
		panic("sync: negative WaitGroup counter")
	}
	w.Release(g)
}

func (g *WaitGroup) Done() { g.Add(-1) }

func (g *WaitGroup) Wait() {
	w := sched.Cur()
	if w == nil {
		g.real.Wait()
		return
	}
	if w.Inert() {
		return
	}
	w.Yield(&sched.Op{Kind: "wgwait", Path: "waitgroup", Block: true, Enabled: func() bool { return g.n == 0 }})
	w.Acquire(g)
}

// Cond is a simulated sync.Cond.
type Cond struct {
	L       Locker
	waiters []*waiter
}

type waiter struct{ woken bool }

func NewCond(l Locker) *Cond { return &Cond{L: l} }

func (c *Cond) Wait() {
	w := sched.Cur()
	if w == nil {
		panic("simsync: Cond outside a simulated world")
	}
	if w.Inert() {
		return
	}
	me := &waiter{}
	c.waiters = append(c.waiters, me)
	c.L.Unlock()
	w.Yield(&sched.Op{Kind: "condwait", Path: "cond", Block: true, Enabled: func() bool { return me.woken }})
	w.Acquire(c)
	c.L.Lock()
}

func (c *Cond) Signal() {
	w := sched.Cur()
	if w == nil || w.Inert() {
		return
	}
	w.Release(c)
	if len(c.waiters) > 0 {
		c.waiters[0].woken = true
		c.waiters = c.waiters[1:]
	}
}

func (c *Cond) Broadcast() {
	w := sched.Cur()
	if w == nil || w.Inert() {
		return
	}
	w.Release(c)
	for _, x := range c.waiters {
		x.woken = true
	}
	c.waiters = nil
}

// OnceFunc mirrors sync.OnceFunc.
func OnceFunc(f func()) func() {
	var o Once
	return func() { o.Do(f) }
}
