package simrt

import (
	"fmt"
	"reflect"

	"verif/sim/sched"
)

// Simulated channel operations.  The rewriter turns every channel operation
// of the library (send, receive, close, select, range) into a call here.
// Channels that library code sends on are simulated entirely in a per-run
// table (the real channel is never used for them, so an unbuffered rendezvous
// cannot block the one goroutine that holds the run token); channels filled
// by the simulated runtimes (fsnotify stub, timers) are real buffered
// channels whose readiness the scheduler knows.

type chanState struct {
	buf     []any
	cap     int
	closed  bool
	waiting int // receivers parked on this channel
}

var chans = map[any]*chanState{}
var chansWorld *sched.World

// A select statement chooses its case and performs the communication in one
// atomic step.  Select() only chooses; the receive itself happens in the case
// clause (RecvNow), after the channel expression has been evaluated again -
// and with R6 that evaluation is a possible preemption point.  The element the
// choice was based on is therefore set aside for the choosing task at the
// moment of the choice, and taken from there by its RecvNow.
type reservation struct {
	key any
	v   any
}

var reserved = map[*sched.Task]*reservation{}

func table(w *sched.World) map[any]*chanState {
	if chansWorld != w {
		chansWorld = w
		chans = map[any]*chanState{}
		reserved = map[*sched.Task]*reservation{}
	}
	return chans
}

func stateOf(w *sched.World, ch any, create bool) *chanState {
	t := table(w)
	k := chanKey(ch)
	st := t[k]
	if st == nil && create {
		st = &chanState{cap: reflect.ValueOf(ch).Cap()}
		t[k] = st
	}
	return st
}

func recvReady(w *sched.World, ch any) bool {
	v := reflect.ValueOf(ch)
	if v.Kind() != reflect.Chan || v.IsNil() {
		return false
	}
	if st := stateOf(w, ch, false); st != nil && (len(st.buf) > 0 || st.closed) {
		return true
	}
	return ready(w, ch)
}

func sendReady(w *sched.World, ch any) bool {
	v := reflect.ValueOf(ch)
	if v.Kind() != reflect.Chan || v.IsNil() {
		return false
	}
	st := stateOf(w, ch, true)
	if st.closed {
		return true // the send will panic, as in Go
	}
	if st.cap > 0 {
		return len(st.buf) < st.cap
	}
	return st.waiting > 0 && len(st.buf) == 0
}

// Send replaces `ch <- v`.
func Send[T any](ch chan<- T, v T) {
	w := sched.Cur()
	if w == nil {
		ch <- v
		return
	}
	if w.Inert() {
		return
	}
	w.Yield(&sched.Op{Kind: "send", Path: "chan", Block: true, Enabled: func() bool { return sendReady(w, ch) }})
	SendNow(ch, v)
}

// SendNow deposits v without yielding (the caller has established readiness).
func SendNow[T any](ch chan<- T, v T) {
	w := sched.Cur()
	if w == nil {
		ch <- v
		return
	}
	if w.Inert() {
		return
	}
	st := stateOf(w, ch, true)
	if st.closed {
		panic("send on closed channel")
	}
	st.buf = append(st.buf, v)
	w.Release(chanKey(ch))
}

func takeNow[T any](w *sched.World, ch <-chan T) (T, bool) {
	table(w)
	if r := reserved[w.CurTask()]; r != nil && r.key == chanKey(ch) {
		delete(reserved, w.CurTask())
		w.Acquire(chanKey(ch))
		return r.v.(T), true
	}
	if st := stateOf(w, ch, false); st != nil {
		if len(st.buf) > 0 {
			v := st.buf[0].(T)
			st.buf = st.buf[1:]
			w.Acquire(chanKey(ch))
			return v, true
		}
		if st.closed {
			var zero T
			w.Acquire(chanKey(ch))
			return zero, false
		}
	}
	v, ok := <-ch
	w.Acquire(chanKey(ch))
	return v, ok
}

// RecvNow / Recv2Now receive without yielding (after Select said the case is ready).
func RecvNow[T any](ch <-chan T) T {
	w := sched.Cur()
	if w == nil || w.Inert() {
		if w == nil {
			return <-ch
		}
		var zero T
		return zero
	}
	v, _ := takeNow(w, ch)
	return v
}

func Recv2Now[T any](ch <-chan T) (T, bool) {
	w := sched.Cur()
	if w == nil {
		v, ok := <-ch
		return v, ok
	}
	if w.Inert() {
		var zero T
		return zero, false
	}
	return takeNow(w, ch)
}

func recvWait[T any](w *sched.World, ch <-chan T) {
	st := stateOf(w, ch, true)
	st.waiting++
	w.Yield(&sched.Op{Kind: "recv", Path: "chan", Block: false,
		Enabled: func() bool { return recvReady(w, ch) },
		Prepare: func() { w.ChanPrepare(chanKey(ch)) }})
	st.waiting--
}

// Close replaces close(ch).
func Close[T any](ch chan T) {
	w := sched.Cur()
	if w == nil {
		close(ch)
		return
	}
	if w.Inert() {
		return
	}
	st := stateOf(w, ch, true)
	if st.closed {
		panic("close of closed channel")
	}
	st.closed = true
	w.Release(chanKey(ch))
	close(ch)
}

// Case describes one case of a select statement.
type Case struct {
	ch   any
	send bool
}

func RecvCase(ch any) Case { return Case{ch: ch} }
func SendCase(ch any) Case { return Case{ch: ch, send: true} }

// Select replaces a select statement: it blocks until a case is ready (never,
// if hasDefault) and returns the index of the case to run, or -1 for the
// default clause.  Among several ready cases the seeded scheduler chooses.
func Select(hasDefault bool, cases ...Case) int {
	w := sched.Cur()
	if w == nil {
		panic("simrt.Select outside a simulated world")
	}
	if w.Inert() {
		return -1
	}
	readyIdx := func() []int {
		var out []int
		for i, c := range cases {
			if c.ch == nil || reflect.ValueOf(c.ch).IsNil() {
				continue
			}
			if c.send && sendReady(w, c.ch) || !c.send && recvReady(w, c.ch) {
				out = append(out, i)
			}
		}
		return out
	}
	for _, c := range cases {
		if !c.send && c.ch != nil && !reflect.ValueOf(c.ch).IsNil() {
			stateOf(w, c.ch, true).waiting++
		}
	}
	chosen := -1
	self := w.CurTask()
	w.Yield(&sched.Op{Kind: "select", Path: fmt.Sprintf("%d cases", len(cases)), Block: false,
		Enabled: func() bool { return hasDefault || len(readyIdx()) > 0 },
		Prepare: func() {
			r := readyIdx()
			if len(r) == 0 {
				return
			}
			chosen = r[w.Src.Intn(len(r))]
			if !cases[chosen].send {
				w.ChanPrepare(chanKey(cases[chosen].ch))
				if st := stateOf(w, cases[chosen].ch, false); st != nil && len(st.buf) > 0 {
					reserved[self] = &reservation{key: chanKey(cases[chosen].ch), v: st.buf[0]}
					st.buf = st.buf[1:]
				}
			}
		}})
	for _, c := range cases {
		if !c.send && c.ch != nil && !reflect.ValueOf(c.ch).IsNil() {
			stateOf(w, c.ch, true).waiting--
		}
	}
	if chosen < 0 && !w.InTask() {
		// direct mode: Prepare ran inline
		return chosen
	}
	return chosen
}
