// Package simsyscall replaces package syscall in the scratch copy: types,
// constants and errnos are the real ones; calls go to the simulated kernel.
package simsyscall

import (
	real "syscall"

	unix "verif/sim/simunix"
)

type (
	Errno  = real.Errno
	Stat_t = real.Stat_t
	Signal = real.Signal
)

const (
	ENOENT    = real.ENOENT
	EEXIST    = real.EEXIST
	ENOTDIR   = real.ENOTDIR
	EISDIR    = real.EISDIR
	EACCES    = real.EACCES
	EPERM     = real.EPERM
	ENOSPC    = real.ENOSPC
	EIO       = real.EIO
	EMFILE    = real.EMFILE
	ENFILE    = real.ENFILE
	EINVAL    = real.EINVAL
	EINTR     = real.EINTR
	EAGAIN    = real.EAGAIN
	EXDEV     = real.EXDEV
	ENOSYS    = real.ENOSYS
	ELOOP     = real.ELOOP
	EBADF     = real.EBADF
	EBUSY     = real.EBUSY
	ENOTEMPTY = real.ENOTEMPTY

	S_IFMT   = real.S_IFMT
	S_IFBLK  = real.S_IFBLK
	S_IFCHR  = real.S_IFCHR
	S_IFDIR  = real.S_IFDIR
	S_IFIFO  = real.S_IFIFO
	S_IFLNK  = real.S_IFLNK
	S_IFREG  = real.S_IFREG
	S_IFSOCK = real.S_IFSOCK

	O_RDONLY    = real.O_RDONLY
	O_WRONLY    = real.O_WRONLY
	O_RDWR      = real.O_RDWR
	O_CREAT     = real.O_CREAT
	O_EXCL      = real.O_EXCL
	O_TRUNC     = real.O_TRUNC
	O_APPEND    = real.O_APPEND
	O_CLOEXEC   = real.O_CLOEXEC
	O_DIRECTORY = real.O_DIRECTORY
	O_NOFOLLOW  = real.O_NOFOLLOW
	O_NONBLOCK  = real.O_NONBLOCK
	O_NDELAY    = real.O_NDELAY
	O_SYNC      = real.O_SYNC
	O_DSYNC     = real.O_DSYNC
	O_NOCTTY    = real.O_NOCTTY
	O_NOATIME   = real.O_NOATIME
	O_ACCMODE   = real.O_ACCMODE
)

func conv(st *Stat_t, u *unix.Stat_t) {
	*st = Stat_t{Ino: u.Ino, Mode: u.Mode, Nlink: u.Nlink, Uid: u.Uid, Gid: u.Gid, Rdev: u.Rdev, Size: u.Size}
}

func Lstat(path string, st *Stat_t) error {
	var u unix.Stat_t
	if err := unix.Lstat(path, &u); err != nil {
		return err
	}
	conv(st, &u)
	return nil
}

func Stat(path string, st *Stat_t) error {
	var u unix.Stat_t
	if err := unix.Stat(path, &u); err != nil {
		return err
	}
	conv(st, &u)
	return nil
}

func Rename(from, to string) error                  { return unix.Rename(from, to) }
func Unlink(path string) error                      { return unix.Unlink(path) }
func Rmdir(path string) error                       { return unix.Rmdir(path) }
func Mkdir(path string, mode uint32) error          { return unix.Mkdir(path, mode) }
func Open(p string, f int, m uint32) (int, error)   { return unix.Open(p, f, m) }
func Close(fd int) error                            { return unix.Close(fd) }
func Read(fd int, b []byte) (int, error)            { return unix.Read(fd, b) }
func Write(fd int, b []byte) (int, error)           { return unix.Write(fd, b) }
func Fsync(fd int) error                            { return unix.Fsync(fd) }
func Mknod(path string, mode uint32, dev int) error { return unix.Mknod(path, mode, dev) }
func Getuid() int                                   { return unix.Getuid() }
func Getpid() int                                   { return unix.Getpid() }
