// Package simos replaces package os in the scratch copy of the library.  The
// pure parts are re-exported from the real package; everything that touches
// the kernel is executed on the simulated disk, one scheduler step per system
// call, decomposed into system calls the way the Go runtime does it.
package simos

import (
	"errors"
	"io"
	"io/fs"
	realos "os"
	"sort"
	"strconv"
	"strings"
	"syscall"
	"time"

	"verif/sim/memfs"
	"verif/sim/sched"
)

// ---- pure re-exports -----------------------------------------------------------

type (
	FileMode     = fs.FileMode
	FileInfo     = fs.FileInfo
	DirEntry     = fs.DirEntry
	PathError    = fs.PathError
	LinkError    = realos.LinkError
	SyscallError = realos.SyscallError
	Signal       = realos.Signal
)

const (
	O_RDONLY = realos.O_RDONLY
	O_WRONLY = realos.O_WRONLY
	O_RDWR   = realos.O_RDWR
	O_APPEND = realos.O_APPEND
	O_CREATE = realos.O_CREATE
	O_EXCL   = realos.O_EXCL
	O_SYNC   = realos.O_SYNC
	O_TRUNC  = realos.O_TRUNC

	PathSeparator     = realos.PathSeparator
	PathListSeparator = realos.PathListSeparator
	DevNull           = realos.DevNull

	ModeDir        = fs.ModeDir
	ModeAppend     = fs.ModeAppend
	ModeExclusive  = fs.ModeExclusive
	ModeTemporary  = fs.ModeTemporary
	ModeSymlink    = fs.ModeSymlink
	ModeDevice     = fs.ModeDevice
	ModeNamedPipe  = fs.ModeNamedPipe
	ModeSocket     = fs.ModeSocket
	ModeSetuid     = fs.ModeSetuid
	ModeSetgid     = fs.ModeSetgid
	ModeCharDevice = fs.ModeCharDevice
	ModeSticky     = fs.ModeSticky
	ModeIrregular  = fs.ModeIrregular
	ModeType       = fs.ModeType
	ModePerm       = fs.ModePerm

	SEEK_SET = 0
	SEEK_CUR = 1
	SEEK_END = 2
)

var (
	ErrInvalid          = fs.ErrInvalid
	ErrPermission       = fs.ErrPermission
	ErrExist            = fs.ErrExist
	ErrNotExist         = fs.ErrNotExist
	ErrClosed           = fs.ErrClosed
	ErrNoDeadline       = realos.ErrNoDeadline
	ErrDeadlineExceeded = realos.ErrDeadlineExceeded
	ErrProcessDone      = realos.ErrProcessDone

	Stdin  = realos.Stdin
	Stdout = realos.Stdout
	Stderr = realos.Stderr
	Args   = realos.Args

	Interrupt = realos.Interrupt
	Kill      = realos.Kill
)

func IsExist(err error) bool                        { return realos.IsExist(err) }
func IsNotExist(err error) bool                     { return realos.IsNotExist(err) }
func IsPermission(err error) bool                   { return realos.IsPermission(err) }
func IsTimeout(err error) bool                      { return realos.IsTimeout(err) }
func IsPathSeparator(c uint8) bool                  { return realos.IsPathSeparator(c) }
func NewSyscallError(s string, e error) error       { return realos.NewSyscallError(s, e) }
func Getenv(k string) string                        { return realos.Getenv(k) }
func LookupEnv(k string) (string, bool)             { return realos.LookupEnv(k) }
func Environ() []string                             { return realos.Environ() }
func ExpandEnv(s string) string                     { return realos.ExpandEnv(s) }
func Expand(s string, m func(string) string) string { return realos.Expand(s, m) }
func Getpid() int                                   { return 4242 }
func Getppid() int                                  { return 1 }
func Getpagesize() int                              { return 4096 }
func Hostname() (string, error)                     { return "simhost", nil }
func TempDir() string                               { return "/tmp" }
func Getwd() (string, error)                        { return "/", nil }
func Exit(code int)                                 { panic("simos: os.Exit(" + strconv.Itoa(code) + ") called by the library") }
func Getuid() int                                   { return int(curProc().Cred.UID) }
func Geteuid() int                                  { return int(curProc().Cred.UID) }
func Getgid() int                                   { return int(curProc().Cred.GID) }
func Getegid() int                                  { return int(curProc().Cred.GID) }
func UserHomeDir() (string, error)                  { return "/root", nil }
func SameFile(a, b FileInfo) bool {
	x, ok1 := a.(*fileStat)
	y, ok2 := b.(*fileStat)
	return ok1 && ok2 && x.st.Ino == y.st.Ino
}

// ---- plumbing ----------------------------------------------------------------

// Fault menus per system call kind (what a real kernel can answer).
var (
	FaultsOpen     = []syscall.Errno{syscall.EMFILE, syscall.EIO}
	FaultsCreate   = []syscall.Errno{syscall.ENOSPC, syscall.EMFILE, syscall.EIO, syscall.EDQUOT}
	FaultsRead     = []syscall.Errno{syscall.EIO}
	FaultsWrite    = []syscall.Errno{syscall.ENOSPC, syscall.EIO, syscall.EDQUOT}
	FaultsClose    = []syscall.Errno{syscall.EIO, syscall.ENOSPC, syscall.EDQUOT}
	FaultsStat     = []syscall.Errno{syscall.EIO}
	FaultsGetdents = []syscall.Errno{syscall.EIO}
	FaultsMkdir    = []syscall.Errno{syscall.ENOSPC, syscall.EIO}
	FaultsRename   = []syscall.Errno{syscall.ENOSPC, syscall.EIO, syscall.EBUSY, syscall.EACCES, syscall.EROFS}
	FaultsUnlink   = []syscall.Errno{syscall.EIO}
)

func world() *sched.World {
	w := sched.Cur()
	if w == nil {
		panic("simos: file-system call outside a simulated world")
	}
	return w
}

func curProc() *sched.Proc { return world().CurProc() }

// Sys performs the scheduling step for one system call: it yields, and returns
// the process to act on, the injected decision, and whether the caller is an
// unwinding killed task (then nothing must happen).
func Sys(kind, path string, faults []syscall.Errno, n int) (*sched.World, *sched.Proc, sched.Decision, bool) {
	w := world()
	if w.Inert() {
		return w, w.CurProc(), sched.Decision{}, true
	}
	d := w.Yield(&sched.Op{Kind: kind, Path: path, Faults: faults, Sys: true, Len: n})
	return w, w.CurProc(), d, false
}

var errKilled = errors.New("simulated process killed")

func perr(op, path string, e syscall.Errno) error {
	if e == 0 {
		return nil
	}
	return &fs.PathError{Op: op, Path: path, Err: e}
}

// ---- FileInfo ----------------------------------------------------------------

type fileStat struct {
	st memfs.Stat
}

// ModeFromStat converts a Linux st_mode to a fs.FileMode.
func ModeFromStat(m uint32) fs.FileMode {
	mode := fs.FileMode(m & 0o777)
	switch m & memfs.S_IFMT {
	case memfs.S_IFBLK:
		mode |= fs.ModeDevice
	case memfs.S_IFCHR:
		mode |= fs.ModeDevice | fs.ModeCharDevice
	case memfs.S_IFDIR:
		mode |= fs.ModeDir
	case memfs.S_IFIFO:
		mode |= fs.ModeNamedPipe
	case memfs.S_IFLNK:
		mode |= fs.ModeSymlink
	case memfs.S_IFSOCK:
		mode |= fs.ModeSocket
	}
	if m&0o4000 != 0 {
		mode |= fs.ModeSetuid
	}
	if m&0o2000 != 0 {
		mode |= fs.ModeSetgid
	}
	if m&0o1000 != 0 {
		mode |= fs.ModeSticky
	}
	return mode
}

func (f *fileStat) Name() string      { return f.st.Name }
func (f *fileStat) Size() int64       { return f.st.Size }
func (f *fileStat) Mode() fs.FileMode { return ModeFromStat(f.st.Mode) }
func (f *fileStat) ModTime() time.Time {
	return time.Date(2026, 1, 1, 0, 0, 0, 0, time.UTC).Add(time.Duration(f.st.Mtime) * time.Millisecond)
}
func (f *fileStat) IsDir() bool { return f.Mode().IsDir() }
func (f *fileStat) Sys() any {
	return &syscall.Stat_t{Ino: f.st.Ino, Mode: f.st.Mode, Nlink: uint64(f.st.Nlink), Uid: f.st.UID, Gid: f.st.GID, Rdev: f.st.Rdev, Size: f.st.Size}
}

// NewFileInfo wraps a simulated stat result.
func NewFileInfo(st memfs.Stat, name string) FileInfo {
	st.Name = name
	return &fileStat{st: st}
}

func basename(name string) string {
	for len(name) > 1 && name[len(name)-1] == '/' {
		name = name[:len(name)-1]
	}
	if i := strings.LastIndex(name, "/"); i >= 0 && name != "/" {
		name = name[i+1:]
	}
	return name
}

// ---- File --------------------------------------------------------------------

// File is an open simulated file.
type File struct {
	p      *sched.Proc
	fd     int
	name   string
	closed bool
	names  []string // buffered directory entries
	dirEOF bool
}

func toMemFlags(flag int) int {
	f := flag & 3
	if flag&O_APPEND != 0 {
		f |= memfs.O_APPEND
	}
	if flag&O_CREATE != 0 {
		f |= memfs.O_CREAT
	}
	if flag&O_EXCL != 0 {
		f |= memfs.O_EXCL
	}
	if flag&O_TRUNC != 0 {
		f |= memfs.O_TRUNC
	}
	if flag&syscall.O_DIRECTORY != 0 {
		f |= memfs.O_DIRECTORY
	}
	if flag&syscall.O_NOFOLLOW != 0 {
		f |= memfs.O_NOFOLLOW
	}
	return f
}

// OpenFile is the generalized open call.
func OpenFile(name string, flag int, perm FileMode) (*File, error) {
	faults := FaultsOpen
	kind := "open"
	if flag&O_CREATE != 0 {
		faults = FaultsCreate
		kind = "open(creat)"
	}
	if flag&O_TRUNC != 0 {
		kind += "(trunc)"
	}
	w, p, d, inert := Sys(kind, name, faults, 0)
	if inert {
		return nil, perr("open", name, syscall.EINTR)
	}
	if d.Err != 0 {
		w.Result("%s", memfs.ErrnoName(d.Err))
		return nil, perr("open", name, d.Err)
	}
	fd, e := p.Open(memfs.AT_FDCWD, name, toMemFlags(flag)|memfs.O_CLOEXEC, uint32(perm.Perm()))
	w.Result("%s fd=%d", memfs.ErrnoName(e), fd)
	if e != 0 {
		return nil, perr("open", name, e)
	}
	return &File{p: p, fd: fd, name: name}, nil
}

func Open(name string) (*File, error) { return OpenFile(name, O_RDONLY, 0) }

func Create(name string) (*File, error) {
	return OpenFile(name, O_RDWR|O_CREATE|O_TRUNC, 0o666)
}

// NewFile is not supported for arbitrary descriptors.
func NewFile(fd uintptr, name string) *File {
	return &File{p: curProc(), fd: int(fd), name: name}
}

func (f *File) Name() string { return f.name }

func (f *File) Fd() uintptr {
	if f == nil || f.closed {
		return ^uintptr(0)
	}
	return uintptr(f.fd)
}

func (f *File) check() error {
	if f == nil {
		return ErrInvalid
	}
	if f.closed {
		return &fs.PathError{Op: "use", Path: f.name, Err: fs.ErrClosed}
	}
	return nil
}

func (f *File) Close() error {
	if f == nil {
		return ErrInvalid
	}
	if f.closed {
		return &fs.PathError{Op: "close", Path: f.name, Err: fs.ErrClosed}
	}
	var faults []syscall.Errno
	if f.p.Wrote(f.fd) {
		faults = FaultsClose
	}
	w, _, d, inert := Sys("close", f.name, faults, 0)
	if inert {
		return nil
	}
	f.closed = true
	if d.Err != 0 && d.Partial > 0 {
		f.p.TruncateTail(f.fd, d.Partial)
	}
	e := f.p.Close(f.fd)
	if d.Err != 0 {
		w.Result("%s (deferred write error, %d bytes lost)", memfs.ErrnoName(d.Err), d.Partial)
		return perr("close", f.name, d.Err)
	}
	w.Result("%s", memfs.ErrnoName(e))
	return perr("close", f.name, e)
}

func (f *File) Read(b []byte) (int, error) {
	if err := f.check(); err != nil {
		return 0, err
	}
	w, _, d, inert := Sys("read", f.name, FaultsRead, len(b))
	if inert {
		return 0, perr("read", f.name, syscall.EINTR)
	}
	if d.Err != 0 {
		w.Result("%s", memfs.ErrnoName(d.Err))
		return 0, perr("read", f.name, d.Err)
	}
	data, e := f.p.Read(f.fd, len(b))
	w.Result("%s n=%d", memfs.ErrnoName(e), len(data))
	if e != 0 {
		return 0, perr("read", f.name, e)
	}
	n := copy(b, data)
	if n == 0 && len(b) > 0 {
		return 0, io.EOF
	}
	return n, nil
}

func (f *File) ReadAt(b []byte, off int64) (int, error) {
	if err := f.check(); err != nil {
		return 0, err
	}
	cur, _ := f.p.Seek(f.fd, 0, 1)
	f.p.Seek(f.fd, off, 0)
	n, err := f.Read(b)
	f.p.Seek(f.fd, cur, 0)
	return n, err
}

func (f *File) ReadFrom(r io.Reader) (int64, error) {
	var total int64
	buf := make([]byte, 32*1024)
	for {
		n, err := r.Read(buf)
		if n > 0 {
			m, werr := f.Write(buf[:n])
			total += int64(m)
			if werr != nil {
				return total, werr
			}
		}
		if err == io.EOF {
			return total, nil
		}
		if err != nil {
			return total, err
		}
	}
}

func (f *File) Write(b []byte) (int, error) {
	if err := f.check(); err != nil {
		return 0, err
	}
	total := 0
	for {
		w, _, d, inert := Sys("write", f.name, FaultsWrite, len(b))
		if inert {
			return total, perr("write", f.name, syscall.EINTR)
		}
		n := len(b)
		if d.Partial > 0 && d.Partial < n {
			n = d.Partial
		}
		if d.Err != 0 && d.Partial == 0 {
			w.Result("%s", memfs.ErrnoName(d.Err))
			return total, perr("write", f.name, d.Err)
		}
		m, e := f.p.Write(f.fd, b[:n])
		total += m
		if e != 0 {
			w.Result("%s", memfs.ErrnoName(e))
			return total, perr("write", f.name, e)
		}
		b = b[n:]
		if d.Err != 0 {
			w.Result("%s after %d bytes", memfs.ErrnoName(d.Err), n)
			return total, perr("write", f.name, d.Err)
		}
		w.Result("ok n=%d", n)
		if len(b) == 0 {
			return total, nil
		}
	}
}

func (f *File) WriteString(s string) (int, error) { return f.Write([]byte(s)) }

func (f *File) WriteAt(b []byte, off int64) (int, error) {
	if err := f.check(); err != nil {
		return 0, err
	}
	f.p.Seek(f.fd, off, 0)
	return f.Write(b)
}

func (f *File) Seek(offset int64, whence int) (int64, error) {
	if err := f.check(); err != nil {
		return 0, err
	}
	n, e := f.p.Seek(f.fd, offset, whence)
	if whence == 0 && offset == 0 {
		f.names, f.dirEOF = nil, false
	}
	return n, perr("seek", f.name, e)
}

func (f *File) Sync() error {
	if err := f.check(); err != nil {
		return err
	}
	w, _, d, inert := Sys("fsync", f.name, FaultsClose, 0)
	if inert {
		return nil
	}
	w.Result("%s", memfs.ErrnoName(d.Err))
	return perr("sync", f.name, d.Err)
}

func (f *File) Truncate(size int64) error {
	if err := f.check(); err != nil {
		return err
	}
	w, _, d, inert := Sys("ftruncate", f.name, FaultsWrite, 0)
	if inert {
		return nil
	}
	if d.Err != 0 {
		return perr("truncate", f.name, d.Err)
	}
	e := f.p.Ftruncate(f.fd, size)
	w.Result("%s", memfs.ErrnoName(e))
	return perr("truncate", f.name, e)
}

func (f *File) Chmod(mode FileMode) error        { return Chmod(f.name, mode) }
func (f *File) Chown(uid, gid int) error         { return Chown(f.name, uid, gid) }
func (f *File) SetDeadline(time.Time) error      { return ErrNoDeadline }
func (f *File) SetReadDeadline(time.Time) error  { return ErrNoDeadline }
func (f *File) SetWriteDeadline(time.Time) error { return ErrNoDeadline }

func (f *File) Stat() (FileInfo, error) {
	if err := f.check(); err != nil {
		return nil, err
	}
	w, _, d, inert := Sys("fstat", f.name, FaultsStat, 0)
	if inert {
		return nil, perr("stat", f.name, syscall.EINTR)
	}
	if d.Err != 0 {
		w.Result("%s", memfs.ErrnoName(d.Err))
		return nil, perr("stat", f.name, d.Err)
	}
	st, e := f.p.Fstat(f.fd)
	w.Result("%s", memfs.ErrnoName(e))
	if e != 0 {
		return nil, perr("stat", f.name, e)
	}
	return NewFileInfo(st, basename(f.name)), nil
}

// fill reads the directory entries (one getdents step).
func (f *File) fill() error {
	if f.dirEOF {
		return nil
	}
	w, _, d, inert := Sys("getdents", f.name, FaultsGetdents, 0)
	if inert {
		return perr("readdirent", f.name, syscall.EINTR)
	}
	if d.Err != 0 {
		w.Result("%s", memfs.ErrnoName(d.Err))
		return perr("readdirent", f.name, d.Err)
	}
	names, e := f.p.Getdents(f.fd)
	w.Result("%s %v", memfs.ErrnoName(e), names)
	if e != 0 {
		return perr("readdirent", f.name, e)
	}
	f.names = append(f.names, names...)
	f.dirEOF = true
	return nil
}

func (f *File) Readdirnames(n int) ([]string, error) {
	if err := f.check(); err != nil {
		return nil, err
	}
	if err := f.fill(); err != nil {
		return nil, err
	}
	if n <= 0 {
		out := f.names
		f.names = nil
		if out == nil {
			out = []string{}
		}
		return out, nil
	}
	if len(f.names) == 0 {
		return nil, io.EOF
	}
	if n > len(f.names) {
		n = len(f.names)
	}
	out := f.names[:n]
	f.names = f.names[n:]
	return out, nil
}

type dirEntry struct {
	dir  string
	name string
	typ  fs.FileMode
}

func (d dirEntry) Name() string      { return d.name }
func (d dirEntry) IsDir() bool       { return d.typ.IsDir() }
func (d dirEntry) Type() fs.FileMode { return d.typ }
func (d dirEntry) Info() (fs.FileInfo, error) {
	return Lstat(d.dir + "/" + d.name)
}
func (d dirEntry) String() string { return fs.FormatDirEntry(d) }

func (f *File) ReadDir(n int) ([]DirEntry, error) {
	names, err := f.Readdirnames(n)
	out := make([]DirEntry, 0, len(names))
	for _, nm := range names {
		// d_type comes with the directory entry: no extra system call
		e, ok := f.p.FS.Lookup(joinPath(f.p.PathOfFD(f.fd), nm))
		if !ok {
			continue
		}
		out = append(out, dirEntry{dir: f.name, name: nm, typ: ModeFromStat(e.Mode).Type()})
	}
	return out, err
}

func (f *File) Readdir(n int) ([]FileInfo, error) {
	names, err := f.Readdirnames(n)
	out := make([]FileInfo, 0, len(names))
	for _, nm := range names {
		fi, lerr := Lstat(f.name + "/" + nm)
		if IsNotExist(lerr) {
			continue
		}
		if lerr != nil {
			return out, lerr
		}
		out = append(out, fi)
	}
	return out, err
}

func joinPath(dir, name string) string {
	if dir == "/" {
		return "/" + name
	}
	return dir + "/" + name
}

// ---- path functions ----------------------------------------------------------

func statCommon(op string, name string, follow bool) (FileInfo, error) {
	kind := "lstat"
	if follow {
		kind = "stat"
	}
	w, p, d, inert := Sys(kind, name, FaultsStat, 0)
	if inert {
		return nil, perr(op, name, syscall.EINTR)
	}
	if d.Err != 0 {
		w.Result("%s", memfs.ErrnoName(d.Err))
		return nil, perr(op, name, d.Err)
	}
	st, e := p.Stat(memfs.AT_FDCWD, name, follow)
	w.Result("%s", memfs.ErrnoName(e))
	if e != 0 {
		return nil, perr(op, name, e)
	}
	return NewFileInfo(st, basename(name)), nil
}

func Stat(name string) (FileInfo, error)  { return statCommon("stat", name, true) }
func Lstat(name string) (FileInfo, error) { return statCommon("lstat", name, false) }

func Mkdir(name string, perm FileMode) error {
	w, p, d, inert := Sys("mkdir", name, FaultsMkdir, 0)
	if inert {
		return perr("mkdir", name, syscall.EINTR)
	}
	if d.Err != 0 {
		w.Result("%s", memfs.ErrnoName(d.Err))
		return perr("mkdir", name, d.Err)
	}
	e := p.Mkdir(name, uint32(perm.Perm()))
	w.Result("%s", memfs.ErrnoName(e))
	return perr("mkdir", name, e)
}

// MkdirAll follows the algorithm of the standard library.
func MkdirAll(path string, perm FileMode) error {
	dir, err := Stat(path)
	if err == nil {
		if dir.IsDir() {
			return nil
		}
		return &PathError{Op: "mkdir", Path: path, Err: syscall.ENOTDIR}
	}
	i := len(path)
	for i > 0 && path[i-1] == '/' {
		i--
	}
	j := i
	for j > 0 && path[j-1] != '/' {
		j--
	}
	if j > 1 {
		if err = MkdirAll(path[:j-1], perm); err != nil {
			return err
		}
	}
	err = Mkdir(path, perm)
	if err != nil {
		dir, err1 := Lstat(path)
		if err1 == nil && dir.IsDir() {
			return nil
		}
		return err
	}
	return nil
}

func unlink(name string) syscall.Errno {
	w, p, d, inert := Sys("unlink", name, FaultsUnlink, 0)
	if inert {
		return syscall.EINTR
	}
	if d.Err != 0 {
		w.Result("%s", memfs.ErrnoName(d.Err))
		return d.Err
	}
	e := p.Unlink(memfs.AT_FDCWD, name)
	w.Result("%s", memfs.ErrnoName(e))
	return e
}

func rmdir(name string) syscall.Errno {
	w, p, d, inert := Sys("rmdir", name, FaultsUnlink, 0)
	if inert {
		return syscall.EINTR
	}
	if d.Err != 0 {
		w.Result("%s", memfs.ErrnoName(d.Err))
		return d.Err
	}
	e := p.Rmdir(name)
	w.Result("%s", memfs.ErrnoName(e))
	return e
}

// Remove follows the standard library: unlink, then rmdir.
func Remove(name string) error {
	e := unlink(name)
	if e == 0 {
		return nil
	}
	e1 := rmdir(name)
	if e1 == 0 {
		return nil
	}
	if e1 != syscall.ENOTDIR {
		e = e1
	}
	return &PathError{Op: "remove", Path: name, Err: e}
}

func RemoveAll(path string) error {
	if path == "" {
		return nil
	}
	if strings.HasSuffix(path, "/.") || path == "." {
		return &PathError{Op: "RemoveAll", Path: path, Err: syscall.EINVAL}
	}
	e := unlink(path)
	if e == 0 || e == syscall.ENOENT {
		return nil
	}
	if e != syscall.EISDIR && e != syscall.EPERM {
		return &PathError{Op: "unlinkat", Path: path, Err: e}
	}
	f, err := Open(path)
	if err != nil {
		if IsNotExist(err) {
			return nil
		}
		return err
	}
	names, err := f.Readdirnames(-1)
	f.Close()
	if err != nil {
		return err
	}
	for _, n := range names {
		if err := RemoveAll(path + "/" + n); err != nil {
			return err
		}
	}
	e = rmdir(path)
	if e == 0 || e == syscall.ENOENT {
		return nil
	}
	return &PathError{Op: "unlinkat", Path: path, Err: e}
}

// Rename follows the standard library: a directory as the new name is refused
// with EEXIST before the system call is made.
func Rename(oldpath, newpath string) error {
	if fi, err := Lstat(newpath); err == nil && fi.IsDir() {
		if ofi, err := Lstat(oldpath); err != nil {
			if pe, ok := err.(*PathError); ok {
				err = pe.Err
			}
			return &LinkError{Op: "rename", Old: oldpath, New: newpath, Err: err}
		} else if newpath == oldpath || !SameFile(fi, ofi) {
			return &LinkError{Op: "rename", Old: oldpath, New: newpath, Err: syscall.EEXIST}
		}
	}
	w, p, d, inert := Sys("rename", oldpath+" -> "+newpath, FaultsRename, 0)
	if inert {
		return &LinkError{Op: "rename", Old: oldpath, New: newpath, Err: syscall.EINTR}
	}
	e := d.Err
	if e == 0 {
		e = p.Rename(memfs.AT_FDCWD, oldpath, memfs.AT_FDCWD, newpath, 0)
	}
	w.Result("%s", memfs.ErrnoName(e))
	if e != 0 {
		return &LinkError{Op: "rename", Old: oldpath, New: newpath, Err: e}
	}
	return nil
}

func Link(oldname, newname string) error {
	w, p, d, inert := Sys("link", oldname+" -> "+newname, FaultsCreate, 0)
	if inert {
		return &LinkError{Op: "link", Old: oldname, New: newname, Err: syscall.EINTR}
	}
	e := d.Err
	if e == 0 {
		e = p.Link(oldname, newname)
	}
	w.Result("%s", memfs.ErrnoName(e))
	if e != 0 {
		return &LinkError{Op: "link", Old: oldname, New: newname, Err: e}
	}
	return nil
}

func Symlink(oldname, newname string) error {
	w, p, d, inert := Sys("symlink", newname, FaultsCreate, 0)
	if inert {
		return &LinkError{Op: "symlink", Old: oldname, New: newname, Err: syscall.EINTR}
	}
	e := d.Err
	if e == 0 {
		e = p.Symlink(oldname, newname)
	}
	w.Result("%s", memfs.ErrnoName(e))
	if e != 0 {
		return &LinkError{Op: "symlink", Old: oldname, New: newname, Err: e}
	}
	return nil
}

func Readlink(name string) (string, error) {
	w, p, d, inert := Sys("readlink", name, FaultsStat, 0)
	if inert {
		return "", perr("readlink", name, syscall.EINTR)
	}
	if d.Err != 0 {
		return "", perr("readlink", name, d.Err)
	}
	t, e := p.Readlink(name)
	w.Result("%s", memfs.ErrnoName(e))
	return t, perr("readlink", name, e)
}

func Chmod(name string, mode FileMode) error {
	w, p, d, inert := Sys("chmod", name, FaultsStat, 0)
	if inert {
		return nil
	}
	e := d.Err
	if e == 0 {
		m := uint32(mode.Perm())
		if mode&ModeSetuid != 0 {
			m |= 0o4000
		}
		if mode&ModeSetgid != 0 {
			m |= 0o2000
		}
		if mode&ModeSticky != 0 {
			m |= 0o1000
		}
		e = p.Chmod(name, m)
	}
	w.Result("%s", memfs.ErrnoName(e))
	return perr("chmod", name, e)
}

func Chown(name string, uid, gid int) error {
	w, p, d, inert := Sys("chown", name, FaultsStat, 0)
	if inert {
		return nil
	}
	e := d.Err
	if e == 0 {
		e = p.Chown(name, uint32(uid), uint32(gid))
	}
	w.Result("%s", memfs.ErrnoName(e))
	return perr("chown", name, e)
}

func Lchown(name string, uid, gid int) error { return Chown(name, uid, gid) }

func Chtimes(name string, atime, mtime time.Time) error {
	_, err := Stat(name)
	return err
}

func Truncate(name string, size int64) error {
	w, p, d, inert := Sys("truncate", name, FaultsWrite, 0)
	if inert {
		return nil
	}
	e := d.Err
	if e == 0 {
		e = p.Truncate(name, size)
	}
	w.Result("%s", memfs.ErrnoName(e))
	return perr("truncate", name, e)
}

// ReadFile follows the standard library: open, fstat, read until EOF, close.
func ReadFile(name string) ([]byte, error) {
	f, err := Open(name)
	if err != nil {
		return nil, err
	}
	defer f.Close()
	var size int
	if info, err := f.Stat(); err == nil {
		size64 := info.Size()
		if int64(int(size64)) == size64 {
			size = int(size64)
		}
	}
	size++
	if size < 512 {
		size = 512
	}
	data := make([]byte, 0, size)
	for {
		n, err := f.Read(data[len(data):cap(data)])
		data = data[:len(data)+n]
		if err != nil {
			if err == io.EOF {
				err = nil
			}
			return data, err
		}
		if len(data) >= cap(data) {
			d := append(data[:cap(data)], 0)
			data = d[:len(data)]
		}
	}
}

// WriteFile follows the standard library: open(O_WRONLY|O_CREATE|O_TRUNC), write, close.
func WriteFile(name string, data []byte, perm FileMode) error {
	f, err := OpenFile(name, O_WRONLY|O_CREATE|O_TRUNC, perm)
	if err != nil {
		return err
	}
	_, err = f.Write(data)
	if err1 := f.Close(); err1 != nil && err == nil {
		err = err1
	}
	return err
}

func ReadDir(name string) ([]DirEntry, error) {
	f, err := Open(name)
	if err != nil {
		return nil, err
	}
	defer f.Close()
	dirs, err := f.ReadDir(-1)
	sort.Slice(dirs, func(i, j int) bool { return dirs[i].Name() < dirs[j].Name() })
	return dirs, err
}

func prefixAndSuffix(pattern string) (prefix, suffix string, err error) {
	for i := 0; i < len(pattern); i++ {
		if pattern[i] == '/' {
			return "", "", errors.New("pattern contains path separator")
		}
	}
	prefix = pattern
	if pos := strings.LastIndexByte(pattern, '*'); pos != -1 {
		prefix, suffix = pattern[:pos], pattern[pos+1:]
	}
	return prefix, suffix, nil
}

func nextRandom() string {
	n := world().FS.NextTemp()
	return strconv.Itoa(1000000 + n*7919)
}

// CreateTemp follows the standard library: O_RDWR|O_CREATE|O_EXCL 0600, retry on EEXIST.
func CreateTemp(dir, pattern string) (*File, error) {
	if dir == "" {
		dir = TempDir()
	}
	prefix, suffix, err := prefixAndSuffix(pattern)
	if err != nil {
		return nil, &PathError{Op: "createtemp", Path: pattern, Err: err}
	}
	if !strings.HasSuffix(dir, "/") {
		prefix = dir + "/" + prefix
	} else {
		prefix = dir + prefix
	}
	try := 0
	for {
		name := prefix + nextRandom() + suffix
		f, err := OpenFile(name, O_RDWR|O_CREATE|O_EXCL, 0o600)
		if IsExist(err) {
			if try++; try < 10000 {
				continue
			}
			return nil, &PathError{Op: "createtemp", Path: prefix + "*" + suffix, Err: ErrExist}
		}
		return f, err
	}
}

func MkdirTemp(dir, pattern string) (string, error) {
	if dir == "" {
		dir = TempDir()
	}
	prefix, suffix, err := prefixAndSuffix(pattern)
	if err != nil {
		return "", &PathError{Op: "mkdirtemp", Path: pattern, Err: err}
	}
	if !strings.HasSuffix(dir, "/") {
		prefix = dir + "/" + prefix
	} else {
		prefix = dir + prefix
	}
	try := 0
	for {
		name := prefix + nextRandom() + suffix
		err := Mkdir(name, 0o700)
		if err == nil {
			return name, nil
		}
		if IsExist(err) {
			if try++; try < 10000 {
				continue
			}
			return "", &PathError{Op: "mkdirtemp", Path: dir + "/" + prefix + "*" + suffix, Err: ErrExist}
		}
		return "", err
	}
}

// DirFS is not simulated.
func DirFS(dir string) fs.FS { panic("simos: os.DirFS is not simulated") }
