module verif/sim

go 1.23

require golang.org/x/sys v0.19.0
