// Package simrand2 replaces math/rand/v2 in the scratch copy (see simrand).
package simrand2

import (
	"math/rand/v2"

	"verif/sim/sched"
)

type (
	Rand    = rand.Rand
	Source  = rand.Source
	PCG     = rand.PCG
	ChaCha8 = rand.ChaCha8
	Zipf    = rand.Zipf
)

type worldSource struct{}

func (worldSource) Uint64() uint64 {
	w := sched.Cur()
	if w == nil {
		panic("simrand2: random number drawn outside a simulated world")
	}
	return w.NextRand()
}

func g() *rand.Rand { return rand.New(worldSource{}) }

func New(src Source) *Rand                             { return rand.New(src) }
func NewPCG(seed1, seed2 uint64) *PCG                  { return rand.NewPCG(seed1, seed2) }
func NewChaCha8(seed [32]byte) *ChaCha8                { return rand.NewChaCha8(seed) }
func NewZipf(r *Rand, s, v float64, imax uint64) *Zipf { return rand.NewZipf(r, s, v, imax) }

func Int() int                           { return g().Int() }
func IntN(n int) int                     { return g().IntN(n) }
func Int32() int32                       { return g().Int32() }
func Int32N(n int32) int32               { return g().Int32N(n) }
func Int64() int64                       { return g().Int64() }
func Int64N(n int64) int64               { return g().Int64N(n) }
func Uint() uint                         { return g().Uint() }
func UintN(n uint) uint                  { return g().UintN(n) }
func Uint32() uint32                     { return g().Uint32() }
func Uint32N(n uint32) uint32            { return g().Uint32N(n) }
func Uint64() uint64                     { return g().Uint64() }
func Uint64N(n uint64) uint64            { return g().Uint64N(n) }
func Float32() float32                   { return g().Float32() }
func Float64() float64                   { return g().Float64() }
func ExpFloat64() float64                { return g().ExpFloat64() }
func NormFloat64() float64               { return g().NormFloat64() }
func Perm(n int) []int                   { return g().Perm(n) }
func Shuffle(n int, swap func(i, j int)) { g().Shuffle(n, swap) }

// N mirrors rand.N for the integer types.
func N[Int interface {
	~int | ~int8 | ~int16 | ~int32 | ~int64 | ~uint | ~uint8 | ~uint16 | ~uint32 | ~uint64 | ~uintptr
}](n Int) Int {
	if n <= 0 {
		panic("invalid argument to N")
	}
	return Int(g().Uint64N(uint64(n)))
}
