// Package simtime replaces package time in the scratch copy.  The library has
// no timers today; this shim keeps a logical clock so that a future timer is
// simulated rather than real.  Sleep advances the logical clock and yields.
package simtime

import (
	real "time"

	"verif/sim/sched"
)

type (
	Duration = real.Duration
	Time     = real.Time
	Month    = real.Month
	Weekday  = real.Weekday
	Location = real.Location
)

const (
	Nanosecond  = real.Nanosecond
	Microsecond = real.Microsecond
	Millisecond = real.Millisecond
	Second      = real.Second
	Minute      = real.Minute
	Hour        = real.Hour
	RFC3339     = real.RFC3339
	RFC3339Nano = real.RFC3339Nano
)

var (
	UTC   = real.UTC
	Local = real.UTC
)

var epoch = real.Date(2026, 1, 1, 0, 0, 0, 0, real.UTC)
var offset Duration

// Reset puts the logical clock back to the epoch (between runs).
func Reset() { offset = 0 }

func Now() Time                                { return epoch.Add(offset) }
func Since(t Time) Duration                    { return Now().Sub(t) }
func Until(t Time) Duration                    { return t.Sub(Now()) }
func Unix(s, n int64) Time                     { return real.Unix(s, n) }
func ParseDuration(s string) (Duration, error) { return real.ParseDuration(s) }
func Parse(l, v string) (Time, error)          { return real.Parse(l, v) }
func Date(y int, m Month, d, h, mi, s, ns int, loc *Location) Time {
	return real.Date(y, m, d, h, mi, s, ns, loc)
}

// Sleep yields to the scheduler and advances the logical clock.
func Sleep(d Duration) {
	w := sched.Cur()
	if w == nil || w.Inert() {
		return
	}
	w.Yield(&sched.Op{Kind: "sleep", Path: d.String()})
	offset += d
}
