// Package simtime replaces package time in the scratch copy.  The library has
// no timers today; this shim keeps every clock read, sleep and timer on the
// simulator's logical clock (sim/sched/timers.go) so that a change that
// introduces one is simulated rather than real.
package simtime

import (
	real "time"

	"verif/sim/sched"
)

type (
	Duration = real.Duration
	Time     = real.Time
	Month    = real.Month
	Weekday  = real.Weekday
	Location = real.Location
)

const (
	Nanosecond  = real.Nanosecond
	Microsecond = real.Microsecond
	Millisecond = real.Millisecond
	Second      = real.Second
	Minute      = real.Minute
	Hour        = real.Hour
	RFC3339     = real.RFC3339
	RFC3339Nano = real.RFC3339Nano
)

var (
	UTC   = real.UTC
	Local = real.UTC
)

var epoch = real.Date(2026, 1, 1, 0, 0, 0, 0, real.UTC)

// Reset is kept for the harness (the clock lives in the world of each run).
func Reset() {}

func Now() Time {
	if w := sched.Cur(); w != nil {
		// the wall clock: timer time plus one millisecond per scheduler step, the
		// same clock file modification times are taken from (memfs FS.Clock)
		return epoch.Add(w.Now() + real.Duration(w.Step)*real.Millisecond)
	}
	return epoch
}
func Since(t Time) Duration                    { return Now().Sub(t) }
func Until(t Time) Duration                    { return t.Sub(Now()) }
func Unix(s, n int64) Time                     { return real.Unix(s, n) }
func ParseDuration(s string) (Duration, error) { return real.ParseDuration(s) }
func Parse(l, v string) (Time, error)          { return real.Parse(l, v) }
func Date(y int, m Month, d, h, mi, s, ns int, loc *Location) Time {
	return real.Date(y, m, d, h, mi, s, ns, loc)
}

// Sleep blocks the task until the logical clock has advanced by d.
func Sleep(d Duration) {
	w := sched.Cur()
	if w == nil || w.Inert() {
		return
	}
	t := w.AfterFunc(d, func() {})
	w.Yield(&sched.Op{Kind: "sleep", Path: d.String(), Enabled: t.Fired})
}

// After mirrors time.After.
func After(d Duration) <-chan Time { return NewTimer(d).C }

// Tick mirrors time.Tick.
func Tick(d Duration) <-chan Time { return NewTicker(d).C }

// Timer mirrors time.Timer.
type Timer struct {
	C <-chan Time
	c chan Time
	h *sched.Timer
	f func()
}

func (t *Timer) arm(d Duration) {
	w := sched.Cur()
	if w == nil || w.Inert() {
		return
	}
	t.h = w.AfterFunc(d, func() {
		if t.f != nil {
			w.SpawnAfter(t.h.Proc(), "timerfunc", t.h.VC(), t.f)
			return
		}
		select {
		case t.c <- epoch.Add(w.Now()):
		default:
		}
	})
}

// NewTimer mirrors time.NewTimer.
func NewTimer(d Duration) *Timer {
	c := make(chan Time, 1)
	t := &Timer{C: c, c: c}
	t.arm(d)
	return t
}

// AfterFunc mirrors time.AfterFunc: f runs as a task of the creating process.
func AfterFunc(d Duration, f func()) *Timer {
	t := &Timer{f: f}
	t.arm(d)
	return t
}

func (t *Timer) Stop() bool {
	if t.h == nil {
		return false
	}
	return t.h.Stop()
}

func (t *Timer) Reset(d Duration) bool {
	was := t.Stop()
	t.arm(d)
	return was
}

// Ticker mirrors time.Ticker.
type Ticker struct {
	C       <-chan Time
	c       chan Time
	h       *sched.Timer
	d       Duration
	stopped bool
}

func (t *Ticker) arm() {
	w := sched.Cur()
	if w == nil || w.Inert() || t.stopped {
		return
	}
	t.h = w.AfterFunc(t.d, func() {
		select {
		case t.c <- epoch.Add(w.Now()):
		default:
		}
		t.arm()
	})
}

func NewTicker(d Duration) *Ticker {
	c := make(chan Time, 1)
	t := &Ticker{C: c, c: c, d: d}
	t.arm()
	return t
}

func (t *Ticker) Stop() {
	t.stopped = true
	if t.h != nil {
		t.h.Stop()
	}
}

func (t *Ticker) Reset(d Duration) {
	t.Stop()
	t.stopped = false
	t.d = d
	t.arm()
}
