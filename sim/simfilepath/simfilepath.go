// Package simfilepath replaces path/filepath in the scratch copy: lexical
// functions are re-exported, tree walks run on the simulated disk with the
// standard library's algorithm (one scheduler step per system call).
package simfilepath

import (
	"errors"
	"io/fs"
	real "path/filepath"
	"sort"
	"strings"

	os "verif/sim/simos"
)

const (
	Separator     = real.Separator
	ListSeparator = real.ListSeparator
)

var (
	ErrBadPattern = real.ErrBadPattern
	SkipDir       = real.SkipDir
	SkipAll       = real.SkipAll
)

type WalkFunc = real.WalkFunc

func Clean(p string) string                    { return real.Clean(p) }
func Join(e ...string) string                  { return real.Join(e...) }
func Ext(p string) string                      { return real.Ext(p) }
func Base(p string) string                     { return real.Base(p) }
func Dir(p string) string                      { return real.Dir(p) }
func IsAbs(p string) bool                      { return real.IsAbs(p) }
func IsLocal(p string) bool                    { return real.IsLocal(p) }
func Match(pattern, name string) (bool, error) { return real.Match(pattern, name) }
func Rel(base, targ string) (string, error)    { return real.Rel(base, targ) }
func Split(p string) (string, string)          { return real.Split(p) }
func SplitList(p string) []string              { return real.SplitList(p) }
func ToSlash(p string) string                  { return real.ToSlash(p) }
func FromSlash(p string) string                { return real.FromSlash(p) }
func VolumeName(p string) string               { return real.VolumeName(p) }
func HasPrefix(p, prefix string) bool          { return strings.HasPrefix(p, prefix) }

// Abs: the simulated processes have "/" as working directory.
func Abs(p string) (string, error) {
	if real.IsAbs(p) {
		return real.Clean(p), nil
	}
	return real.Join("/", p), nil
}

// EvalSymlinks resolves symlinks component by component with lstat/readlink.
func EvalSymlinks(path string) (string, error) {
	if path == "" {
		return "", nil
	}
	abs := real.IsAbs(path)
	parts := strings.Split(path, "/")
	cur := ""
	if abs {
		cur = "/"
	}
	links := 0
	for i := 0; i < len(parts); i++ {
		c := parts[i]
		if c == "" || c == "." {
			continue
		}
		if c == ".." {
			cur = real.Dir(cur)
			continue
		}
		next := real.Join(cur, c)
		fi, err := os.Lstat(next)
		if err != nil {
			return "", err
		}
		if fi.Mode()&fs.ModeSymlink == 0 {
			cur = next
			continue
		}
		links++
		if links > 255 {
			return "", errors.New("EvalSymlinks: too many links")
		}
		tgt, err := os.Readlink(next)
		if err != nil {
			return "", err
		}
		rest := append(strings.Split(tgt, "/"), parts[i+1:]...)
		if real.IsAbs(tgt) {
			cur = "/"
		}
		parts = rest
		i = -1
	}
	if cur == "" {
		cur = "."
	}
	return real.Clean(cur), nil
}

func readDirNames(dirname string) ([]string, error) {
	f, err := os.Open(dirname)
	if err != nil {
		return nil, err
	}
	names, err := f.Readdirnames(-1)
	f.Close()
	if err != nil {
		return nil, err
	}
	sort.Strings(names)
	return names, nil
}

func walk(path string, info fs.FileInfo, walkFn WalkFunc) error {
	if !info.IsDir() {
		return walkFn(path, info, nil)
	}
	names, err := readDirNames(path)
	err1 := walkFn(path, info, err)
	if err != nil || err1 != nil {
		return err1
	}
	for _, name := range names {
		filename := Join(path, name)
		fileInfo, err := os.Lstat(filename)
		if err != nil {
			if err := walkFn(filename, nil, err); err != nil && err != SkipDir {
				return err
			}
		} else {
			err = walk(filename, fileInfo, walkFn)
			if err != nil {
				if !fileInfo.IsDir() || err != SkipDir {
					return err
				}
			}
		}
	}
	return nil
}

// Walk is filepath.Walk on the simulated disk.
func Walk(root string, fn WalkFunc) error {
	info, err := os.Lstat(root)
	if err != nil {
		err = fn(root, nil, err)
	} else {
		err = walk(root, info, fn)
	}
	if err == SkipDir || err == SkipAll {
		return nil
	}
	return err
}

type statDirEntry struct{ info fs.FileInfo }

func (d *statDirEntry) Name() string               { return d.info.Name() }
func (d *statDirEntry) IsDir() bool                { return d.info.IsDir() }
func (d *statDirEntry) Type() fs.FileMode          { return d.info.Mode().Type() }
func (d *statDirEntry) Info() (fs.FileInfo, error) { return d.info, nil }

func walkDir(path string, d fs.DirEntry, walkDirFn fs.WalkDirFunc) error {
	if err := walkDirFn(path, d, nil); err != nil || !d.IsDir() {
		if err == SkipDir && d.IsDir() {
			err = nil
		}
		return err
	}
	dirs, err := os.ReadDir(path)
	if err != nil {
		err = walkDirFn(path, d, err)
		if err != nil {
			if err == SkipDir && d.IsDir() {
				err = nil
			}
			return err
		}
	}
	for _, d1 := range dirs {
		path1 := Join(path, d1.Name())
		if err := walkDir(path1, d1, walkDirFn); err != nil {
			if err == SkipDir {
				break
			}
			return err
		}
	}
	return nil
}

// WalkDir is filepath.WalkDir on the simulated disk.
func WalkDir(root string, fn fs.WalkDirFunc) error {
	info, err := os.Lstat(root)
	if err != nil {
		err = fn(root, nil, err)
	} else {
		err = walkDir(root, &statDirEntry{info}, fn)
	}
	if err == SkipDir || err == SkipAll {
		return nil
	}
	return err
}

// Glob supports patterns whose directory part has no metacharacters.
func Glob(pattern string) ([]string, error) {
	if _, err := real.Match(pattern, ""); err != nil {
		return nil, err
	}
	dir, file := real.Split(pattern)
	if strings.ContainsAny(dir, "*?[") {
		return nil, errors.New("simfilepath: Glob with a pattern in the directory part is not simulated")
	}
	dir = real.Clean(dir)
	if !strings.ContainsAny(file, "*?[") {
		if _, err := os.Lstat(pattern); err != nil {
			return nil, nil
		}
		return []string{pattern}, nil
	}
	names, err := readDirNames(dir)
	if err != nil {
		return nil, nil
	}
	var out []string
	for _, n := range names {
		if ok, _ := real.Match(file, n); ok {
			out = append(out, Join(dir, n))
		}
	}
	return out, nil
}
