// Package simioutil replaces io/ioutil in the scratch copy.
package simioutil

import (
	"io"
	"io/fs"
	"sort"

	os "verif/sim/simos"
)

var Discard = io.Discard

func ReadAll(r io.Reader) ([]byte, error)                  { return io.ReadAll(r) }
func NopCloser(r io.Reader) io.ReadCloser                  { return io.NopCloser(r) }
func ReadFile(name string) ([]byte, error)                 { return os.ReadFile(name) }
func WriteFile(name string, d []byte, p fs.FileMode) error { return os.WriteFile(name, d, p) }
func TempFile(dir, pattern string) (*os.File, error)       { return os.CreateTemp(dir, pattern) }
func TempDir(dir, pattern string) (string, error)          { return os.MkdirTemp(dir, pattern) }
func ReadDir(dirname string) ([]fs.FileInfo, error) {
	f, err := os.Open(dirname)
	if err != nil {
		return nil, err
	}
	list, err := f.Readdir(-1)
	f.Close()
	if err != nil {
		return nil, err
	}
	sort.Slice(list, func(i, j int) bool { return list[i].Name() < list[j].Name() })
	return list, nil
}
