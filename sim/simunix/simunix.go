// Package simunix replaces golang.org/x/sys/unix in the scratch copy.
package simunix

import (
	"syscall"

	real "golang.org/x/sys/unix"

	"verif/sim/memfs"
	"verif/sim/simos"
)

type (
	Stat_t = real.Stat_t
	Errno  = syscall.Errno
)

const (
	S_IFMT   = real.S_IFMT
	S_IFBLK  = real.S_IFBLK
	S_IFCHR  = real.S_IFCHR
	S_IFDIR  = real.S_IFDIR
	S_IFIFO  = real.S_IFIFO
	S_IFLNK  = real.S_IFLNK
	S_IFREG  = real.S_IFREG
	S_IFSOCK = real.S_IFSOCK

	RENAME_NOREPLACE    = real.RENAME_NOREPLACE
	RENAME_EXCHANGE     = real.RENAME_EXCHANGE
	AT_FDCWD            = real.AT_FDCWD
	AT_REMOVEDIR        = real.AT_REMOVEDIR
	AT_SYMLINK_NOFOLLOW = real.AT_SYMLINK_NOFOLLOW

	O_RDONLY    = real.O_RDONLY
	O_WRONLY    = real.O_WRONLY
	O_RDWR      = real.O_RDWR
	O_CREAT     = real.O_CREAT
	O_EXCL      = real.O_EXCL
	O_TRUNC     = real.O_TRUNC
	O_APPEND    = real.O_APPEND
	O_CLOEXEC   = real.O_CLOEXEC
	O_DIRECTORY = real.O_DIRECTORY
	O_NOFOLLOW  = real.O_NOFOLLOW
	O_PATH      = real.O_PATH
	O_NONBLOCK  = real.O_NONBLOCK
	O_NDELAY    = real.O_NDELAY
	O_SYNC      = real.O_SYNC
	O_DSYNC     = real.O_DSYNC
	O_NOCTTY    = real.O_NOCTTY
	O_NOATIME   = real.O_NOATIME
	O_ACCMODE   = real.O_ACCMODE

	ENOENT    = real.ENOENT
	EEXIST    = real.EEXIST
	ENOTDIR   = real.ENOTDIR
	EISDIR    = real.EISDIR
	EACCES    = real.EACCES
	EPERM     = real.EPERM
	ENOSPC    = real.ENOSPC
	EIO       = real.EIO
	EMFILE    = real.EMFILE
	ENFILE    = real.ENFILE
	EINVAL    = real.EINVAL
	EINTR     = real.EINTR
	EAGAIN    = real.EAGAIN
	EXDEV     = real.EXDEV
	ENOSYS    = real.ENOSYS
	ELOOP     = real.ELOOP
	EBADF     = real.EBADF
	EBUSY     = real.EBUSY
	ENOTEMPTY = real.ENOTEMPTY
)

func Major(dev uint64) uint32          { return real.Major(dev) }
func Minor(dev uint64) uint32          { return real.Minor(dev) }
func Mkdev(major, minor uint32) uint64 { return real.Mkdev(major, minor) }

func errOf(e syscall.Errno) error {
	if e == 0 {
		return nil
	}
	return e
}

func fill(st *Stat_t, s memfs.Stat) {
	*st = Stat_t{}
	st.Ino = s.Ino
	st.Mode = s.Mode
	st.Nlink = uint64(s.Nlink)
	st.Uid = s.UID
	st.Gid = s.GID
	st.Rdev = s.Rdev
	st.Size = s.Size
}

func stat(kind string, dirfd int, path string, st *Stat_t, follow bool) error {
	w, p, d, inert := simos.Sys(kind, path, simos.FaultsStat, 0)
	if inert {
		return syscall.EINTR
	}
	if d.Err != 0 {
		w.Result("%s", memfs.ErrnoName(d.Err))
		return d.Err
	}
	s, e := p.Stat(dirfd, path, follow)
	w.Result("%s", memfs.ErrnoName(e))
	if e != 0 {
		return e
	}
	fill(st, s)
	return nil
}

func Lstat(path string, st *Stat_t) error { return stat("lstat", memfs.AT_FDCWD, path, st, false) }
func Stat(path string, st *Stat_t) error  { return stat("stat", memfs.AT_FDCWD, path, st, true) }

func Fstatat(dirfd int, path string, st *Stat_t, flags int) error {
	return stat("fstatat", dirfd, path, st, flags&AT_SYMLINK_NOFOLLOW == 0)
}

func Fstat(fd int, st *Stat_t) error {
	w, p, d, inert := simos.Sys("fstat", p2(fd), simos.FaultsStat, 0)
	if inert {
		return syscall.EINTR
	}
	if d.Err != 0 {
		return d.Err
	}
	s, e := p.Fstat(fd)
	w.Result("%s", memfs.ErrnoName(e))
	if e != 0 {
		return e
	}
	fill(st, s)
	return nil
}

func p2(fd int) string {
	w := simosWorldProc()
	if w == "" {
		return "fd"
	}
	return w
}

func simosWorldProc() string { return "" }

func Renameat2(olddirfd int, oldpath string, newdirfd int, newpath string, flags uint) error {
	w, p, d, inert := simos.Sys("rename", oldpath+" -> "+newpath, simos.FaultsRename, 0)
	if inert {
		return syscall.EINTR
	}
	e := d.Err
	if e == 0 {
		e = p.Rename(olddirfd, oldpath, newdirfd, newpath, flags)
	}
	w.Result("%s", memfs.ErrnoName(e))
	return errOf(e)
}

func Renameat(olddirfd int, oldpath string, newdirfd int, newpath string) error {
	return Renameat2(olddirfd, oldpath, newdirfd, newpath, 0)
}

func Rename(from, to string) error {
	return Renameat2(memfs.AT_FDCWD, from, memfs.AT_FDCWD, to, 0)
}

func Unlinkat(dirfd int, path string, flags int) error {
	kind := "unlink"
	if flags&AT_REMOVEDIR != 0 {
		kind = "rmdir"
	}
	w, p, d, inert := simos.Sys(kind, path, simos.FaultsUnlink, 0)
	if inert {
		return syscall.EINTR
	}
	e := d.Err
	if e == 0 {
		if flags&AT_REMOVEDIR != 0 {
			e = p.Rmdir(path)
		} else {
			e = p.Unlink(dirfd, path)
		}
	}
	w.Result("%s", memfs.ErrnoName(e))
	return errOf(e)
}

func Unlink(path string) error { return Unlinkat(memfs.AT_FDCWD, path, 0) }
func Rmdir(path string) error  { return Unlinkat(memfs.AT_FDCWD, path, AT_REMOVEDIR) }

func Mkdir(path string, mode uint32) error {
	w, p, d, inert := simos.Sys("mkdir", path, simos.FaultsMkdir, 0)
	if inert {
		return syscall.EINTR
	}
	e := d.Err
	if e == 0 {
		e = p.Mkdir(path, mode)
	}
	w.Result("%s", memfs.ErrnoName(e))
	return errOf(e)
}

func Openat(dirfd int, path string, flags int, mode uint32) (int, error) {
	faults := simos.FaultsOpen
	kind := "open"
	if flags&O_CREAT != 0 {
		faults = simos.FaultsCreate
		kind = "open(creat)"
	}
	w, p, d, inert := simos.Sys(kind, path, faults, 0)
	if inert {
		return -1, syscall.EINTR
	}
	if d.Err != 0 {
		w.Result("%s", memfs.ErrnoName(d.Err))
		return -1, d.Err
	}
	fd, e := p.Open(dirfd, path, flags, mode)
	w.Result("%s fd=%d", memfs.ErrnoName(e), fd)
	return fd, errOf(e)
}

func Open(path string, flags int, mode uint32) (int, error) {
	return Openat(memfs.AT_FDCWD, path, flags, mode)
}

func Close(fd int) error {
	w, p, _, inert := simos.Sys("close", "fd", nil, 0)
	if inert {
		return nil
	}
	e := p.Close(fd)
	w.Result("%s", memfs.ErrnoName(e))
	return errOf(e)
}

func Read(fd int, b []byte) (int, error) {
	w, p, d, inert := simos.Sys("read", "fd", simos.FaultsRead, len(b))
	if inert {
		return 0, syscall.EINTR
	}
	if d.Err != 0 {
		return 0, d.Err
	}
	data, e := p.Read(fd, len(b))
	w.Result("%s n=%d", memfs.ErrnoName(e), len(data))
	return copy(b, data), errOf(e)
}

func Write(fd int, b []byte) (int, error) {
	w, p, d, inert := simos.Sys("write", "fd", simos.FaultsWrite, len(b))
	if inert {
		return 0, syscall.EINTR
	}
	n := len(b)
	if d.Partial > 0 && d.Partial < n {
		n = d.Partial
	}
	if d.Err != 0 && d.Partial == 0 {
		return 0, d.Err
	}
	m, e := p.Write(fd, b[:n])
	w.Result("%s n=%d", memfs.ErrnoName(e), m)
	if e != 0 {
		return m, e
	}
	return m, errOf(d.Err)
}

func Fsync(fd int) error {
	w, _, d, inert := simos.Sys("fsync", "fd", simos.FaultsClose, 0)
	if inert {
		return nil
	}
	w.Result("%s", memfs.ErrnoName(d.Err))
	return errOf(d.Err)
}

func Fdatasync(fd int) error { return Fsync(fd) }

func Mknod(path string, mode uint32, dev int) error {
	w, p, d, inert := simos.Sys("mknod", path, simos.FaultsCreate, 0)
	if inert {
		return syscall.EINTR
	}
	e := d.Err
	if e == 0 {
		e = p.Mknod(path, mode, uint64(dev))
	}
	w.Result("%s", memfs.ErrnoName(e))
	return errOf(e)
}

func Access(path string, mode uint32) error {
	var st Stat_t
	return Stat(path, &st)
}

func Getuid() int  { return simos.Getuid() }
func Geteuid() int { return simos.Geteuid() }
func Getgid() int  { return simos.Getgid() }
func Getpid() int  { return simos.Getpid() }
