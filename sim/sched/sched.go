// Package sched is the deterministic scheduler of the simulation.
//
// A World owns one simulated disk, a set of simulated OS processes and their
// tasks.  A task is a real goroutine that only runs while it holds the run
// token; at every simulated system call, lock operation, blocking receive
// and (optionally) instrumented memory access it publishes the operation it
// is about to perform and parks.  The scheduler loop (on the harness
// goroutine) then draws from the choice source which enabled task or kernel
// actor runs next and whether a fault is injected.  Nothing else decides
// anything: one tape is one execution.
package sched

import (
	"crypto/sha256"
	"encoding/hex"
	"fmt"
	"hash"
	"runtime/debug"
	"strings"
	"syscall"
	"time"
	"unsafe"

	"verif/sim/choice"
	"verif/sim/memfs"
)

// Op is an operation a task is about to perform.
type Op struct {
	Kind    string          // open, read, write, close, lstat, getdents, mkdir, rename, unlink, lock, rlock, once, recv, start, access, choice ...
	Path    string          // object (for traces and fault filters)
	Enabled func() bool     // nil: always enabled
	Prepare func()          // run by the scheduler right before the task is resumed
	Faults  []syscall.Errno // menu of errnos that may be injected (nil: not fault-eligible)
	Len     int             // write: number of bytes about to be written
	Sys     bool            // counts as a system call
	Block   bool            // a blocking synchronisation op (deadlock detection)
}

// Decision is what the scheduler tells a resumed task.
type Decision struct {
	Err     syscall.Errno // injected error (0: none)
	Partial int           // write: perform only this many bytes before Err (or before a short-write return)
	Kill    bool          // the process is being killed: unwind
	Late    bool          // close: report Err although the descriptor is closed (deferred write-back error)
}

type killSentinel struct{}

// Task is one simulated thread of control.
type Task struct {
	ID      int
	Name    string
	Proc    *Proc
	pending *Op
	resume  chan Decision
	Done    bool
	dead    bool
	started bool
	fn      func()
	VC      []uint32
	Panic   any
	Stack   string
	Steps   int
	// LastSys is the canonical path and kind of the last completed system call.
	weight int
}

// Proc is a simulated OS process.
type Proc struct {
	*memfs.Proc
	W       *World
	Tasks   []*Task
	Killed  bool
	Crashed bool
	CrashBy *Task
}

// Actor is a piece of simulated kernel/runtime that takes steps of its own
// (the fsnotify reader goroutine).
type Actor interface {
	Name() string
	Enabled() bool
	Step() string
	Owner() *Proc
}

// FaultRec records a fault that actually fired.
type FaultRec struct {
	Step int
	Task string
	Proc string
	Op   string
	Path string
	Err  syscall.Errno
	Kill bool
	Late bool
	Part int
}

// Config are the per-run scheduling knobs.
type Config struct {
	MaxSteps  int
	SwitchDen int  // 1: uniform choice at every step; k>1: keep running the last task unless a 1/k draw says switch
	AccessDen int  // R6 builds: an instrumented access is a preemption point with probability 1/AccessDen (0: never)
	Trace     bool // keep the readable trace
}

// Stats are per-run counters.
type Stats struct {
	Steps       int
	Syscalls    int
	Switches    int
	Preempts    int // a switch away from a task that was still enabled
	Faults      map[string]int
	Kills       int
	ActorSteps  int
	Accesses    int
	TimersFired int
	Probes      map[string]int
}

// FaultPolicy decides fault injection for one eligible operation.
type FaultPolicy func(t *Task, op *Op) Decision

// World is one simulated machine.
type World struct {
	FS      *memfs.FS
	Src     *choice.Source
	Cfg     Config
	tasks   []*Task
	procs   []*Proc
	actors  []Actor
	running *Task
	parked  chan *Task
	Step    int
	lastT   *Task
	lastA   Actor
	Trace   []string
	th      hash.Hash
	Stats   Stats
	Faults  []FaultRec
	Policy  FaultPolicy
	direct  *Proc
	H       *Task // pseudo task of the harness (vector clock owner in direct mode)
	syncVC  map[any][]uint32
	chans   map[any]*chanReg
	Overrun bool
	closed  bool
	// AccessHook, when set, is called for every instrumented memory access.
	AccessHook func(t *Task, addr any, write bool, site int)
	// OnStep, when set, is called by the scheduler after every step (omniscient invariant checks).
	OnStep func()
	// OnOp, when set, is called by the scheduler for every task operation it resumes, with the decision taken.
	OnOp       func(t *Task, op *Op, d Decision)
	nextID     int
	shadow     map[unsafe.Pointer]*shadow
	raceOn     bool
	now        time.Duration
	timers     []*Timer
	timerSeq   uint64
	clockActor bool
	// Races are the data races detected so far (R6 builds with RaceOn).
	Races []Race
	// randState is the state of the world's own pseudo-random generator: the
	// seam behind math/rand, math/rand/v2 and crypto/rand of simulated code
	// (simrand, simrand2, simcrand).  It is not the choice source: what the
	// code under test draws must not shift the schedule and fault choices.
	randState uint64
	// Quiesce state (see Quiesce)
	inQuiesce  bool
	horizon    time.Duration
	Livelocked bool
}

// NextRand returns the next value of the world's pseudo-random generator
// (splitmix64 from a fixed start: the same sequence in every run).
func (w *World) NextRand() uint64 {
	w.randState += 0x9E3779B97F4A7C15
	z := w.randState
	z = (z ^ (z >> 30)) * 0xBF58476D1CE4E5B9
	z = (z ^ (z >> 27)) * 0x94D049BB133111EB
	return z ^ (z >> 31)
}

type chanReg struct {
	ready   func() bool
	prepare func()
}

var cur *World

// Cur returns the world of this OS process (nil outside a run).
func Cur() *World { return cur }

// NewWorld creates a world and makes it current.
func NewWorld(src *choice.Source, cfg Config) *World {
	if cfg.MaxSteps == 0 {
		cfg.MaxSteps = 50000
	}
	if cfg.SwitchDen == 0 {
		cfg.SwitchDen = 1
	}
	w := &World{FS: memfs.New(), Src: src, Cfg: cfg, parked: make(chan *Task), th: sha256.New(),
		syncVC: map[any][]uint32{}, chans: map[any]*chanReg{}}
	w.Stats.Faults = map[string]int{}
	w.Stats.Probes = map[string]int{}
	w.FS.Clock = func() int { return w.Step + int(w.now/time.Millisecond) }
	w.H = &Task{ID: 0, Name: "harness", VC: []uint32{1}}
	w.nextID = 1
	w.direct = w.NewProc("harness", memfs.Cred{})
	w.H.Proc = w.direct
	cur = w
	return w
}

// NewProc creates a simulated process.
func (w *World) NewProc(name string, c memfs.Cred) *Proc {
	p := &Proc{Proc: w.FS.NewProc(name, c), W: w}
	w.procs = append(w.procs, p)
	return p
}

// Direct returns the harness's own process (used in direct mode).
func (w *World) Direct() *Proc { return w.direct }

// Probe counts a rare condition reached.
func (w *World) Probe(name string) { w.Stats.Probes[name]++ }

// Logf appends a line to the trace (and to the trace hash).
func (w *World) Logf(format string, a ...any) {
	s := fmt.Sprintf(format, a...)
	fmt.Fprintf(w.th, "%s\n", s)
	if w.Cfg.Trace {
		w.Trace = append(w.Trace, s)
	}
}

// TraceHash is the hash of everything logged so far.
func (w *World) TraceHash() string {
	return hex.EncodeToString(w.th.Sum(nil))[:20]
}

// CurTask returns the task holding the run token (the harness pseudo task in direct mode).
func (w *World) CurTask() *Task {
	if w.running != nil {
		return w.running
	}
	return w.H
}

// CurProc returns the process of the current task.
func (w *World) CurProc() *Proc { return w.CurTask().Proc }

// InTask reports whether a task (not the harness) holds the run token.
func (w *World) InTask() bool { return w.running != nil }

// Inert reports whether the caller is a killed task that is unwinding: every
// simulated operation must then do nothing.
func (w *World) Inert() bool {
	return w.closed || (w.running != nil && w.running.dead)
}

// SpawnAfter is Spawn for a task that is caused by an earlier event of another
// task (a timer callback): it happens-after vc.
func (w *World) SpawnAfter(p *Proc, name string, vc []uint32, fn func()) *Task {
	t := w.Spawn(p, name, fn)
	joinVC(&t.VC, vc)
	return t
}

// Spawn creates a task in process p.  It first runs when the scheduler picks it.
func (w *World) Spawn(p *Proc, name string, fn func()) *Task {
	t := &Task{ID: w.nextID, Name: name, Proc: p, resume: make(chan Decision), fn: fn}
	w.nextID++
	parent := w.CurTask()
	t.VC = make([]uint32, t.ID+1)
	copy(t.VC, parent.VC)
	t.VC[t.ID] = 1
	parent.tick()
	t.pending = &Op{Kind: "start"}
	w.tasks = append(w.tasks, t)
	p.Tasks = append(p.Tasks, t)
	go t.main(w)
	return t
}

func (t *Task) tick() {
	for len(t.VC) <= t.ID {
		t.VC = append(t.VC, 0)
	}
	t.VC[t.ID]++
}

func (t *Task) main(w *World) {
	defer func() {
		if r := recover(); r != nil {
			if _, ok := r.(killSentinel); !ok {
				t.Panic = r
				t.Stack = string(debug.Stack())
			}
		}
		t.Done = true
		t.pending = nil
		w.running = nil
		w.parked <- t
	}()
	d := <-t.resume
	t.started = true
	if d.Kill {
		t.dead = true
		return
	}
	t.fn()
}

// Yield publishes op and parks the calling task until the scheduler resumes
// it.  In direct mode (harness goroutine) it returns at once: no preemption,
// no faults.
func (w *World) Yield(op *Op) Decision {
	t := w.running
	if t == nil {
		if op.Enabled != nil && !op.Enabled() {
			panic(fmt.Sprintf("sim: harness (direct mode) would block on %s %s", op.Kind, op.Path))
		}
		if op.Prepare != nil {
			op.Prepare()
		}
		if op.Sys {
			w.Stats.Syscalls++
		}
		return Decision{}
	}
	if t.dead {
		return Decision{Kill: true}
	}
	t.pending = op
	w.running = nil
	w.parked <- t
	d := <-t.resume
	if d.Kill {
		t.dead = true
		panic(killSentinel{})
	}
	return d
}

// Result logs the outcome of the operation the current task was resumed for.
func (w *World) Result(format string, a ...any) {
	w.Logf("      = "+format, a...)
}

type runnable struct {
	t *Task
	a Actor
}

func (r runnable) name() string {
	if r.t != nil {
		return r.t.Name
	}
	return r.a.Name()
}

func (w *World) enabledSet() []runnable {
	var out []runnable
	for _, t := range w.tasks {
		if t.Done || t.pending == nil {
			continue
		}
		if t.pending.Enabled == nil || t.pending.Enabled() {
			out = append(out, runnable{t: t})
		}
	}
	for _, a := range w.actors {
		if a.Enabled() {
			out = append(out, runnable{a: a})
		}
	}
	return out
}

// Quiescent reports whether nothing can run.
func (w *World) Quiescent() bool { return len(w.enabledSet()) == 0 }

// Blocked returns the live tasks whose pending operation is not enabled.
func (w *World) Blocked() []*Task {
	var out []*Task
	for _, t := range w.tasks {
		if t.Done || t.pending == nil {
			continue
		}
		if t.pending.Enabled != nil && !t.pending.Enabled() {
			out = append(out, t)
		}
	}
	return out
}

// Deadlocked returns the tasks that are blocked on a lock-like operation while
// nothing at all can run (a deadlock or lost wake-up).
func (w *World) Deadlocked() []*Task {
	if !w.Quiescent() {
		return nil
	}
	var out []*Task
	for _, t := range w.Blocked() {
		if t.pending.Block {
			out = append(out, t)
		}
	}
	return out
}

// Alive reports whether the task can still run (not finished, not killed).
func (t *Task) Alive() bool { return !t.Done && !t.dead }

// PendingKind returns the kind of the operation a task is parked on.
func (t *Task) PendingKind() string {
	if t.pending == nil {
		return ""
	}
	return t.pending.Kind
}

// PendingPath returns the path of the operation a task is parked on.
func (t *Task) PendingPath() string {
	if t.pending == nil {
		return ""
	}
	return t.pending.Path
}

// SetWeight biases the scheduler: a task with weight k>1 is k times less
// likely to be picked when the scheduler switches (stalled task).
func (t *Task) SetWeight(k int) { t.weight = k }

// StepOnce runs one scheduling step.  It returns false if nothing is enabled.
func (w *World) StepOnce() bool {
	en := w.enabledSet()
	if len(en) == 0 {
		return false
	}
	if w.Step >= w.Cfg.MaxSteps {
		w.Overrun = true
		return false
	}
	// index of the entity that ran last, if still enabled
	lastIdx := -1
	for i, r := range en {
		if (r.t != nil && r.t == w.lastT) || (r.a != nil && r.a == w.lastA) {
			lastIdx = i
		}
	}
	pick := 0
	if len(en) > 1 {
		if lastIdx >= 0 {
			sw := true
			if w.Cfg.SwitchDen > 1 {
				sw = w.Src.Bool(1, w.Cfg.SwitchDen)
			}
			if !sw {
				pick = lastIdx
			} else {
				// 0 = keep the last one, k = the k-th other
				k := w.pickWeighted(en, lastIdx)
				pick = k
			}
		} else {
			pick = w.pickWeighted(en, -1)
		}
	}
	r := en[pick]
	if lastIdx >= 0 && pick != lastIdx {
		w.Stats.Preempts++
	}
	if (r.t != nil && r.t != w.lastT) || (r.a != nil && r.a != w.lastA) {
		w.Stats.Switches++
	}
	w.Step++
	w.Stats.Steps++
	if r.a != nil {
		w.lastA, w.lastT = r.a, nil
		w.Stats.ActorSteps++
		desc := r.a.Step()
		w.Logf("%4d %-12s %s", w.Step, r.a.Name(), desc)
	} else {
		w.lastT, w.lastA = r.t, nil
		w.runTask(r.t)
	}
	if w.OnStep != nil {
		w.OnStep()
	}
	return true
}

// pickWeighted draws an index into en; the entity at lastIdx (if any) is
// choice 0.  Tasks with weight k count 1/k.
func (w *World) pickWeighted(en []runnable, lastIdx int) int {
	order := make([]int, 0, len(en))
	if lastIdx >= 0 {
		order = append(order, lastIdx)
	}
	for i := range en {
		if i != lastIdx {
			order = append(order, i)
		}
	}
	maxw := 1
	for _, r := range en {
		if r.t != nil && r.t.weight > maxw {
			maxw = r.t.weight
		}
	}
	if maxw == 1 {
		return order[w.Src.Intn(len(order))]
	}
	ws := make([]int, len(order))
	for j, i := range order {
		wt := maxw
		if en[i].t != nil && en[i].t.weight > 1 {
			wt = maxw / en[i].t.weight
			if wt < 1 {
				wt = 1
			}
		}
		ws[j] = wt
	}
	return order[w.Src.Pick(ws...)]
}

func (w *World) runTask(t *Task) {
	op := t.pending
	var d Decision
	if w.Policy != nil && (op.Sys || len(op.Faults) > 0) {
		d = w.Policy(t, op)
		if d.Err != 0 && len(op.Faults) == 0 {
			d.Err = 0 // this call cannot fail this way
		}
	}
	if op.Sys {
		w.Stats.Syscalls++
	}
	if w.OnOp != nil {
		w.OnOp(t, op, d)
	}
	t.Steps++
	extra := ""
	if d.Kill {
		extra = "  !! KILL"
	} else if d.Err != 0 {
		extra = fmt.Sprintf("  !! inject %s", memfs.ErrnoName(d.Err))
		if d.Partial > 0 {
			extra += fmt.Sprintf(" after %d bytes", d.Partial)
		}
		if d.Late {
			extra += " (reported at close)"
		}
	} else if d.Partial > 0 {
		extra = fmt.Sprintf("  !! short write %d", d.Partial)
	}
	w.Logf("%4d %-12s %s %s%s", w.Step, t.Name, op.Kind, op.Path, extra)
	if d.Err != 0 || d.Kill || d.Partial > 0 {
		w.Faults = append(w.Faults, FaultRec{Step: w.Step, Task: t.Name, Proc: t.Proc.Name, Op: op.Kind, Path: op.Path, Err: d.Err, Kill: d.Kill, Late: d.Late, Part: d.Partial})
		switch {
		case d.Kill:
			w.Stats.Faults["kill"]++
		case d.Err != 0 && d.Late:
			w.Stats.Faults["close-"+memfs.ErrnoName(d.Err)]++
		case d.Err != 0:
			w.Stats.Faults[op.Kind+"-"+memfs.ErrnoName(d.Err)]++
		default:
			w.Stats.Faults["short-write"]++
		}
	}
	if d.Kill {
		w.Kill(t.Proc)
		return
	}
	if op.Prepare != nil {
		op.Prepare()
	}
	w.resumeTask(t, d)
	if t.Done && t.Panic != nil && !t.Proc.Crashed {
		t.Proc.Crashed = true
		t.Proc.CrashBy = t
		w.Logf("      !! PANIC in %s: %v", t.Name, t.Panic)
		w.Kill(t.Proc)
	}
}

func (w *World) resumeTask(t *Task, d Decision) {
	w.running = t
	t.pending = nil
	t.resume <- d
	<-w.parked
}

// Kill kills a process: its tasks are abandoned at their current operation,
// its descriptors are closed, its actors disappear.  Completed system calls
// keep their effects.
func (w *World) Kill(p *Proc) {
	if p.Killed {
		return
	}
	p.Killed = true
	w.Stats.Kills++
	for _, t := range p.Tasks {
		if t.Done {
			continue
		}
		t.dead = true
		w.resumeTask(t, Decision{Kill: true})
	}
	var keep []Actor
	for _, a := range w.actors {
		if a.Owner() != p {
			keep = append(keep, a)
		}
	}
	w.actors = keep
	p.Proc.Dead = true
	p.CloseAll()
}

// AddActor registers a kernel actor.
func (w *World) AddActor(a Actor) { w.actors = append(w.actors, a) }

// RemoveActor unregisters a kernel actor.
func (w *World) RemoveActor(a Actor) {
	var keep []Actor
	for _, x := range w.actors {
		if x != a {
			keep = append(keep, x)
		}
	}
	w.actors = keep
}

// Actors returns the registered actors.
func (w *World) Actors() []Actor { return w.actors }

// Tasks returns all tasks ever spawned.
func (w *World) Tasks() []*Task { return w.tasks }

// LiveTasks returns the tasks that have neither finished nor been killed.
func (w *World) LiveTasks() []*Task {
	var out []*Task
	for _, t := range w.tasks {
		if t.Alive() {
			out = append(out, t)
		}
	}
	return out
}

// LiveTasks returns the tasks of p that have not finished.
func (p *Proc) LiveTasks() []*Task {
	var out []*Task
	for _, t := range p.Tasks {
		if !t.Done {
			out = append(out, t)
		}
	}
	return out
}

// Run steps the world until stop() is true, nothing is enabled, or the step
// cap is hit.  It returns true if stop() became true.
func (w *World) Run(stop func() bool) bool {
	for {
		if stop != nil && stop() {
			return true
		}
		if !w.StepOnce() {
			return stop != nil && stop()
		}
	}
}

// QuiesceHorizon is how much simulated time one Quiesce lets pass: timers due
// within the horizon fire (a debounce, a back-off, a few periods of a
// rescan ticker), later ones stay pending, so that a periodic timer does not
// keep the world from coming to rest.
const QuiesceHorizon = 60 * time.Second

// Quiesce runs until nothing is enabled (timers: see QuiesceHorizon).  If the
// step budget runs out here - the workload is over, only goroutines of the
// code under test and the kernel actors are left - the world is marked
// Livelocked.
func (w *World) Quiesce() {
	w.horizon = w.now + QuiesceHorizon
	w.inQuiesce = true
	w.Run(nil)
	w.inQuiesce = false
	if w.Overrun {
		w.Livelocked = true
	}
}

// Do runs fn as a new task of p and steps the world (all tasks and actors
// interleave) until that task has finished.  ok is false if the task could
// not finish (blocked forever, step cap, killed or panicked).
func (w *World) Do(p *Proc, name string, fn func()) (t *Task, ok bool) {
	t = w.Spawn(p, name, fn)
	w.Run(func() bool { return t.Done })
	w.Join(t)
	return t, t.Done && t.Panic == nil && !t.dead
}

// Join makes everything a finished task did happen-before what the harness does next.
func (w *World) Join(t *Task) {
	if t.Done {
		joinVC(&w.H.VC, t.VC)
	}
}

// Close ends the run: every remaining task is unwound.
func (w *World) Close() {
	if w.closed {
		return
	}
	for _, p := range w.procs {
		if !p.Killed {
			p.Killed = true
			for _, t := range p.Tasks {
				if !t.Done {
					t.dead = true
					w.resumeTask(t, Decision{Kill: true})
				}
			}
		}
	}
	w.closed = true
	w.actors = nil
	if cur == w {
		cur = nil
	}
}

// Panics returns the tasks that ended in a (non-kill) panic.
func (w *World) Panics() []*Task {
	var out []*Task
	for _, t := range w.tasks {
		if t.Panic != nil {
			out = append(out, t)
		}
	}
	return out
}

// ---- happens-before bookkeeping -------------------------------------------

func joinVC(dst *[]uint32, src []uint32) {
	for len(*dst) < len(src) {
		*dst = append(*dst, 0)
	}
	for i, v := range src {
		if v > (*dst)[i] {
			(*dst)[i] = v
		}
	}
}

// Acquire joins the clock of a synchronisation object into the current task.
func (w *World) Acquire(obj any) {
	t := w.CurTask()
	if vc, ok := w.syncVC[obj]; ok {
		joinVC(&t.VC, vc)
	}
}

// Release publishes the current task's clock on a synchronisation object.
func (w *World) Release(obj any) {
	t := w.CurTask()
	vc := w.syncVC[obj]
	joinVC(&vc, t.VC)
	w.syncVC[obj] = vc
	t.tick()
}

// ---- channels owned by simulated runtimes ------------------------------------

// RegisterChan tells the scheduler how to know that a receive on ch can
// proceed, and what to do right before a receiver is resumed.
func (w *World) RegisterChan(ch any, ready func() bool, prepare func()) {
	w.chans[ch] = &chanReg{ready: ready, prepare: prepare}
}

// UnregisterChan forgets a channel.
func (w *World) UnregisterChan(ch any) { delete(w.chans, ch) }

// ChanReg returns the registration of a channel.
func (w *World) ChanReady(ch any) (ready bool, known bool) {
	r, ok := w.chans[ch]
	if !ok {
		return false, false
	}
	return r.ready(), true
}

// ChanPrepare runs the prepare hook of a registered channel.
func (w *World) ChanPrepare(ch any) {
	if r, ok := w.chans[ch]; ok && r.prepare != nil {
		r.prepare()
	}
}

// FaultSummary renders the fired faults.
func (w *World) FaultSummary() string {
	var b strings.Builder
	for _, f := range w.Faults {
		fmt.Fprintf(&b, "step %d %s %s %s", f.Step, f.Task, f.Op, f.Path)
		if f.Kill {
			b.WriteString(" KILL")
		} else {
			fmt.Fprintf(&b, " %s", memfs.ErrnoName(f.Err))
		}
		b.WriteString("; ")
	}
	return b.String()
}
