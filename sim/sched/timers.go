package sched

import (
	"fmt"
	"time"
)

// Discrete-event time.  The library under test has no timers today, so this
// is idle on the current tree; it exists so that a change that introduces a
// timer (a debounce, a retry, a poll) is simulated rather than real.  Time is
// logical: tasks take no time, a pending timer may fire at any scheduling
// point (the "clock" is one more runnable entity the seeded scheduler can
// pick), and when nothing else can run the clock jumps to the next timer.

// Timer is a pending timer.
type Timer struct {
	at      time.Duration
	seq     uint64
	fire    func()
	stopped bool
	fired   bool
	w       *World
	vc      []uint32
	proc    *Proc
}

// Now is the logical time since the start of the run.
func (w *World) Now() time.Duration { return w.now }

// AfterFunc registers fire to run (on the scheduler) when the logical clock reaches now+d.
func (w *World) AfterFunc(d time.Duration, fire func()) *Timer {
	if d < 0 {
		d = 0
	}
	w.timerSeq++
	t := &Timer{at: w.now + d, seq: w.timerSeq, fire: fire, w: w, proc: w.CurProc()}
	t.vc = append([]uint32(nil), w.CurTask().VC...)
	w.timers = append(w.timers, t)
	if !w.clockActor {
		w.clockActor = true
		w.AddActor(&clock{w: w})
	}
	return t
}

// Stop cancels the timer; it reports whether the timer was still pending.
func (t *Timer) Stop() bool {
	was := !t.stopped && !t.fired
	t.stopped = true
	return was
}

// Fired reports whether the timer has fired.
func (t *Timer) Fired() bool { return t.fired }

// Proc is the process that created the timer.
func (t *Timer) Proc() *Proc { return t.proc }

// VC is the vector clock of the creator at creation time.
func (t *Timer) VC() []uint32 { return t.vc }

func (w *World) nextTimer() *Timer {
	var best *Timer
	keep := w.timers[:0]
	for _, t := range w.timers {
		if t.stopped || t.fired || t.proc.Killed {
			continue
		}
		keep = append(keep, t)
		if best == nil || t.at < best.at || (t.at == best.at && t.seq < best.seq) {
			best = t
		}
	}
	w.timers = keep
	return best
}

type clock struct{ w *World }

func (c *clock) Name() string { return "clock" }
func (c *clock) Owner() *Proc { return nil }
func (c *clock) Enabled() bool {
	t := c.w.nextTimer()
	if t == nil {
		return false
	}
	return !c.w.inQuiesce || t.at <= c.w.horizon
}
func (c *clock) Step() string {
	t := c.w.nextTimer()
	if t == nil {
		return "no timer"
	}
	if t.at > c.w.now {
		c.w.now = t.at
	}
	t.fired = true
	c.w.Stats.TimersFired++
	t.fire()
	return fmt.Sprintf("logical time %v: timer #%d fires", c.w.now, t.seq)
}
