package sched

import "unsafe"

// Happens-before data race detection over the accesses the rewriter
// instruments (R6).  Vector clocks per task (maintained by Spawn, Acquire,
// Release, Join), per location the last write epoch and the read epochs since
// (DJIT+).  Deterministic and independent of the interleaving that happened
// to run: two conflicting accesses are reported iff no chain of
// synchronisation orders them.

type accessRec struct {
	task  int
	clk   uint32
	site  int
	tname string
}

type shadow struct {
	hasW  bool
	w     accessRec
	reads []accessRec
}

// Race is one detected data race.
type Race struct {
	PrevSite, CurSite   int
	PrevWrite, CurWrite bool
	PrevTask, CurTask   string
	Step                int
}

// RaceOn switches the detector on for this world.
func (w *World) RaceOn() {
	w.shadow = map[unsafe.Pointer]*shadow{}
	w.raceOn = true
}

func (t *Task) ordered(a accessRec) bool {
	if a.task == t.ID {
		return true
	}
	if a.task < len(t.VC) && a.clk <= t.VC[a.task] {
		return true
	}
	return false
}

func (w *World) report(prev accessRec, prevWrite bool, t *Task, curWrite bool, site int) {
	if len(w.Races) >= 16 {
		return
	}
	for _, r := range w.Races {
		if r.PrevSite == prev.site && r.CurSite == site {
			return
		}
	}
	w.Races = append(w.Races, Race{PrevSite: prev.site, CurSite: site, PrevWrite: prevWrite, CurWrite: curWrite, PrevTask: prev.tname, CurTask: t.Name, Step: w.Step})
	w.Logf("      !! DATA RACE: %s at site %d (write=%v) is not ordered after %s at site %d (write=%v)", t.Name, site, curWrite, prev.tname, prev.site, prevWrite)
}

// Access records one instrumented memory access of the current task, and is a
// preemption point with probability 1/Cfg.AccessDen.
func (w *World) Access(addr unsafe.Pointer, write bool, site int) {
	if !w.raceOn || addr == nil || w.closed {
		return
	}
	t := w.CurTask()
	if t.dead {
		return
	}
	w.Stats.Accesses++
	if w.running != nil && w.Cfg.AccessDen > 0 && w.Src.Bool(1, w.Cfg.AccessDen) {
		w.Yield(&Op{Kind: "access", Path: ""})
	}
	for len(t.VC) <= t.ID {
		t.VC = append(t.VC, 0)
	}
	if t.VC[t.ID] == 0 {
		t.VC[t.ID] = 1
	}
	cur := accessRec{task: t.ID, clk: t.VC[t.ID], site: site, tname: t.Name}
	s := w.shadow[addr]
	if s == nil {
		s = &shadow{}
		w.shadow[addr] = s
	}
	if s.hasW && !t.ordered(s.w) {
		w.report(s.w, true, t, write, site)
	}
	if write {
		for _, r := range s.reads {
			if !t.ordered(r) {
				w.report(r, false, t, true, site)
			}
		}
		s.hasW = true
		s.w = cur
		s.reads = s.reads[:0]
		return
	}
	for i := range s.reads {
		if s.reads[i].task == t.ID {
			s.reads[i] = cur
			return
		}
	}
	s.reads = append(s.reads, cur)
}
