// Package simcrand replaces crypto/rand in the scratch copy: Reader yields
// the simulated world's own pseudo-random bytes (see simrand).  It is for
// simulation only and has no cryptographic quality.  Prime is deliberately
// missing: the standard library's draws a real random bit on the side.
package simcrand

import (
	crand "crypto/rand"
	"io"
	"math/big"

	"verif/sim/sched"
)

type worldReader struct{}

func (worldReader) Read(p []byte) (int, error) {
	w := sched.Cur()
	if w == nil {
		panic("simcrand: random bytes read outside a simulated world")
	}
	var v uint64
	for i := range p {
		if i%8 == 0 {
			v = w.NextRand()
		}
		p[i] = byte(v)
		v >>= 8
	}
	return len(p), nil
}

// Reader is the simulated source of random bytes.
var Reader io.Reader = worldReader{}

func Read(b []byte) (int, error)                      { return io.ReadFull(Reader, b) }
func Int(r io.Reader, max *big.Int) (*big.Int, error) { return crand.Int(r, max) }
func Prime(r io.Reader, bits int) (*big.Int, error)   { return crand.Prime(r, bits) }
