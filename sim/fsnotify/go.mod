module github.com/fsnotify/fsnotify

go 1.23

require verif/sim v0.0.0
