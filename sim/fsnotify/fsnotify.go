// Package fsnotify is a stand-in for github.com/fsnotify/fsnotify v1.5.1
// (inotify back end) running on the simulated kernel.  It reproduces the
// library's own logic from its source: op translation, names built from the
// originally added path, the "drop Create/Write/Chmod if lstat says the file
// is gone when the reader processes the event" rule, map clean-up on
// IN_DELETE_SELF, batch reads of the kernel queue, Close semantics.  The
// reader goroutine is a scheduler actor; the hand-over of an event to the
// consumer is a rendezvous decided by the scheduler.
package fsnotify

import (
	"errors"
	"fmt"
	"path/filepath"
	"strings"
	"syscall"

	"verif/sim/memfs"
	"verif/sim/sched"
	"verif/sim/simrt"
)

// Event represents a single file system notification.
type Event struct {
	Name string
	Op   Op
}

// Op describes a set of file operations.
type Op uint32

const (
	Create Op = 1 << iota
	Write
	Remove
	Rename
	Chmod
)

func (op Op) String() string {
	var parts []string
	if op&Create == Create {
		parts = append(parts, "CREATE")
	}
	if op&Remove == Remove {
		parts = append(parts, "REMOVE")
	}
	if op&Write == Write {
		parts = append(parts, "WRITE")
	}
	if op&Rename == Rename {
		parts = append(parts, "RENAME")
	}
	if op&Chmod == Chmod {
		parts = append(parts, "CHMOD")
	}
	return strings.Join(parts, "|")
}

func (e Event) String() string { return fmt.Sprintf("%q: %s", e.Name, e.Op.String()) }

var (
	ErrEventOverflow = errors.New("fsnotify queue overflow")
)

type watchEntry struct {
	wd    int
	flags uint32
}

// Watcher watches a set of files, delivering events to a channel.
type Watcher struct {
	Events chan Event
	Errors chan error

	w       *sched.World
	p       *sched.Proc
	fd      int
	aux     []int
	in      *memfs.Inotify
	watches map[string]*watchEntry
	paths   map[int]string
	closed  bool
	// reader goroutine state
	buf            []memfs.RawEvent
	inHand         *Event
	errInHand      error
	evClosed       bool
	errClosed      bool
	id             int
	Delivered      int
	DroppedByLstat int
}

var nextID int

// Faults that the watcher's own system calls can be answered with.
var (
	FaultsInit = []syscall.Errno{syscall.EMFILE}
	FaultsAdd  = []syscall.Errno{syscall.ENOSPC}
)

// NewWatcher establishes a new watcher on the simulated kernel.  As the real
// one it needs four descriptors: inotify, epoll, and a wake-up pipe.
func NewWatcher() (*Watcher, error) {
	w := sched.Cur()
	if w == nil {
		return nil, errors.New("fsnotify stub: no simulated world")
	}
	if w.Inert() {
		return nil, syscall.EINTR
	}
	d := w.Yield(&sched.Op{Kind: "inotify_init", Path: "", Faults: FaultsInit, Sys: true})
	p := w.CurProc()
	if d.Err != 0 {
		w.Result("%s", memfs.ErrnoName(d.Err))
		return nil, d.Err
	}
	fd, in, e := p.InotifyInit()
	if e != 0 {
		w.Result("%s", memfs.ErrnoName(e))
		return nil, e
	}
	var aux []int
	for i := 0; i < 3; i++ {
		a, e := p.AllocAux()
		if e != 0 {
			for _, x := range aux {
				p.Close(x)
			}
			p.Close(fd)
			w.Result("%s (poller)", memfs.ErrnoName(e))
			return nil, e
		}
		aux = append(aux, a)
	}
	nextID++
	fw := &Watcher{
		Events: make(chan Event, 1), Errors: make(chan error, 1),
		w: w, p: p, fd: fd, aux: aux, in: in,
		watches: map[string]*watchEntry{}, paths: map[int]string{}, id: nextID,
	}
	w.RegisterChan(simrt.ChanKey(fw.Events),
		func() bool { return fw.inHand != nil || fw.evClosed },
		func() {
			if fw.inHand != nil && !fw.evClosed {
				fw.Events <- *fw.inHand
				fw.inHand = nil
				fw.Delivered++
			}
		})
	w.RegisterChan(simrt.ChanKey(fw.Errors),
		func() bool { return fw.closed || fw.errInHand != nil },
		func() {
			if fw.closed && !fw.errClosed {
				fw.errClosed = true
				close(fw.Errors)
				return
			}
			if fw.errInHand != nil && !fw.closed {
				fw.Errors <- fw.errInHand
				fw.errInHand = nil
			}
		})
	w.AddActor(fw)
	w.Result("ok fd=%d", fd)
	return fw, nil
}

// ---- scheduler actor: the readEvents goroutine ------------------------------

func (fw *Watcher) Name() string       { return fmt.Sprintf("fsnotify%d", fw.ID()) }
func (fw *Watcher) ID() int            { return fw.in.ID }
func (fw *Watcher) Owner() *sched.Proc { return fw.p }

func (fw *Watcher) Enabled() bool {
	if fw.closed || fw.inHand != nil || fw.errInHand != nil {
		return false
	}
	return len(fw.buf) > 0 || fw.in.Pending() > 0
}

func maskString(m uint32) string {
	var parts []string
	for _, x := range []struct {
		b uint32
		n string
	}{{memfs.IN_CREATE, "IN_CREATE"}, {memfs.IN_MODIFY, "IN_MODIFY"}, {memfs.IN_ATTRIB, "IN_ATTRIB"},
		{memfs.IN_MOVED_FROM, "IN_MOVED_FROM"}, {memfs.IN_MOVED_TO, "IN_MOVED_TO"}, {memfs.IN_DELETE, "IN_DELETE"},
		{memfs.IN_DELETE_SELF, "IN_DELETE_SELF"}, {memfs.IN_MOVE_SELF, "IN_MOVE_SELF"}, {memfs.IN_IGNORED, "IN_IGNORED"},
		{memfs.IN_ISDIR, "IN_ISDIR"}} {
		if m&x.b != 0 {
			parts = append(parts, x.n)
		}
	}
	return strings.Join(parts, "|")
}

// Step performs one action of the reader goroutine: read the kernel queue in
// one batch, or process the next buffered raw event.
func (fw *Watcher) Step() string {
	if len(fw.buf) == 0 {
		fw.buf = fw.in.ReadAll()
		return fmt.Sprintf("read inotify queue: %d raw events", len(fw.buf))
	}
	raw := fw.buf[0]
	fw.buf = fw.buf[1:]
	if raw.Mask&memfs.IN_Q_OVERFLOW != 0 {
		// the reader blocks sending ErrEventOverflow until somebody receives from Errors
		fw.errInHand = ErrEventOverflow
		fw.w.Probe("inotify_queue_overflow")
		return "process IN_Q_OVERFLOW: ErrEventOverflow ready for consumer (events were lost)"
	}
	name, ok := fw.paths[raw.Wd]
	if ok && raw.Mask&memfs.IN_DELETE_SELF != 0 {
		delete(fw.paths, raw.Wd)
		delete(fw.watches, name)
	}
	if raw.Name != "" {
		name += "/" + raw.Name
	}
	ev := newEvent(name, raw.Mask)
	if fw.ignore(ev, raw.Mask) {
		if raw.Mask&memfs.IN_IGNORED == 0 {
			fw.DroppedByLstat++
			fw.w.Probe("event_dropped_by_lstat_rule")
		}
		return fmt.Sprintf("process %s %q: ignored", maskString(raw.Mask), name)
	}
	fw.inHand = &ev
	return fmt.Sprintf("process %s %q: %s ready for consumer", maskString(raw.Mask), name, ev.Op)
}

func (fw *Watcher) ignore(e Event, mask uint32) bool {
	if mask&memfs.IN_IGNORED != 0 {
		return true
	}
	if !(e.Op&Remove == Remove || e.Op&Rename == Rename) {
		_, err := fw.p.Stat(memfs.AT_FDCWD, e.Name, false)
		return err == syscall.ENOENT
	}
	return false
}

func newEvent(name string, mask uint32) Event {
	e := Event{Name: name}
	if mask&memfs.IN_CREATE != 0 || mask&memfs.IN_MOVED_TO != 0 {
		e.Op |= Create
	}
	if mask&memfs.IN_DELETE_SELF != 0 || mask&memfs.IN_DELETE != 0 {
		e.Op |= Remove
	}
	if mask&memfs.IN_MODIFY != 0 {
		e.Op |= Write
	}
	if mask&memfs.IN_MOVE_SELF != 0 || mask&memfs.IN_MOVED_FROM != 0 {
		e.Op |= Rename
	}
	if mask&memfs.IN_ATTRIB != 0 {
		e.Op |= Chmod
	}
	return e
}

// ---- API -----------------------------------------------------------------------

// Close removes all watches and closes the events channel.
func (fw *Watcher) Close() error {
	w := fw.w
	if sched.Cur() != w || w.Inert() {
		return nil
	}
	if fw.closed {
		return nil
	}
	w.Yield(&sched.Op{Kind: "close", Path: fmt.Sprintf("inotify%d", fw.ID()), Sys: true})
	if fw.closed {
		return nil
	}
	fw.closed = true
	fw.inHand = nil
	fw.errInHand = nil
	fw.buf = nil
	fw.evClosed = true
	w.Release(simrt.ChanKey(fw.Events))
	w.Release(simrt.ChanKey(fw.Errors))
	close(fw.Events)
	fw.p.Close(fw.fd)
	for _, a := range fw.aux {
		fw.p.Close(a)
	}
	w.RemoveActor(fw)
	w.Result("ok")
	return nil
}

const agnosticEvents = memfs.IN_MOVED_TO | memfs.IN_MOVED_FROM | memfs.IN_CREATE | memfs.IN_ATTRIB |
	memfs.IN_MODIFY | memfs.IN_MOVE_SELF | memfs.IN_DELETE | memfs.IN_DELETE_SELF

// Add starts watching the named file or directory (non-recursively).
func (fw *Watcher) Add(name string) error {
	name = filepath.Clean(name)
	w := fw.w
	if sched.Cur() != w || w.Inert() {
		return syscall.EINTR
	}
	if fw.closed {
		return errors.New("inotify instance already closed")
	}
	d := w.Yield(&sched.Op{Kind: "inotify_add_watch", Path: name, Faults: FaultsAdd, Sys: true})
	if fw.closed {
		return errors.New("inotify instance already closed")
	}
	if d.Err != 0 {
		w.Result("%s", memfs.ErrnoName(d.Err))
		return d.Err
	}
	var flags uint32 = agnosticEvents
	entry := fw.watches[name]
	if entry != nil {
		flags |= entry.flags | memfs.IN_MASK_ADD
	}
	wd, e := fw.p.InotifyAddWatch(fw.fd, name, flags)
	w.Result("%s wd=%d", memfs.ErrnoName(e), wd)
	if e != 0 {
		return e
	}
	if entry == nil {
		fw.watches[name] = &watchEntry{wd: wd, flags: flags}
		fw.paths[wd] = name
	} else {
		entry.wd = wd
		entry.flags = flags
	}
	return nil
}

// Remove stops watching the named file or directory.
func (fw *Watcher) Remove(name string) error {
	name = filepath.Clean(name)
	w := fw.w
	if sched.Cur() != w || w.Inert() {
		return nil
	}
	entry, ok := fw.watches[name]
	if !ok {
		return fmt.Errorf("can't remove non-existent inotify watch for: %s", name)
	}
	w.Yield(&sched.Op{Kind: "inotify_rm_watch", Path: name, Sys: true})
	delete(fw.paths, entry.wd)
	delete(fw.watches, name)
	if e := fw.p.InotifyRmWatch(fw.fd, entry.wd); e != 0 {
		return e
	}
	return nil
}

// WatchList returns the names added and still watched, as the library sees them.
func (fw *Watcher) WatchList() []string {
	var out []string
	for n := range fw.watches {
		out = append(out, n)
	}
	for i := 1; i < len(out); i++ {
		for j := i; j > 0 && out[j] < out[j-1]; j-- {
			out[j], out[j-1] = out[j-1], out[j]
		}
	}
	return out
}

// IsClosed reports whether Close was called.
func (fw *Watcher) IsClosed() bool { return fw.closed }

// Kernel returns the simulated inotify instance behind the watcher.
func (fw *Watcher) Kernel() *memfs.Inotify { return fw.in }
