package memfs

import (
	"crypto/sha256"
	"encoding/hex"
	"fmt"
	"sort"
	"strings"
	"syscall"
)

// MkdirAll creates a directory and its missing ancestors (one mkdir each).
func (p *Proc) MkdirAll(path string, perm uint32) syscall.Errno {
	parts := strings.Split(strings.Trim(path, "/"), "/")
	cur := ""
	for _, c := range parts {
		if c == "" {
			continue
		}
		cur += "/" + c
		e := p.Mkdir(cur, perm)
		if e != 0 && e != syscall.EEXIST {
			return e
		}
		if e == syscall.EEXIST {
			st, e2 := p.Stat(AT_FDCWD, cur, true)
			if e2 != 0 {
				return e2
			}
			if st.Mode&S_IFMT != S_IFDIR {
				return syscall.ENOTDIR
			}
		}
	}
	return 0
}

// WriteFile creates/truncates a file and writes data with one write(2).
func (p *Proc) WriteFile(path string, data []byte, perm uint32) syscall.Errno {
	fd, e := p.Open(AT_FDCWD, path, O_WRONLY|O_CREAT|O_TRUNC, perm)
	if e != 0 {
		return e
	}
	_, e = p.Write(fd, data)
	p.Close(fd)
	return e
}

// ReadFile reads a whole file.
func (p *Proc) ReadFile(path string) ([]byte, syscall.Errno) {
	fd, e := p.Open(AT_FDCWD, path, O_RDONLY, 0)
	if e != 0 {
		return nil, e
	}
	defer p.Close(fd)
	var out []byte
	for {
		b, e := p.Read(fd, 1<<20)
		if e != 0 {
			return nil, e
		}
		if len(b) == 0 {
			return out, 0
		}
		out = append(out, b...)
	}
}

// RemoveAll removes a tree with unlink/rmdir calls, children first, in sorted order.
func (p *Proc) RemoveAll(path string) syscall.Errno {
	st, e := p.Stat(AT_FDCWD, path, false)
	if e == syscall.ENOENT {
		return 0
	}
	if e != 0 {
		return e
	}
	if st.Mode&S_IFMT != S_IFDIR {
		return p.Unlink(AT_FDCWD, path)
	}
	fd, e := p.Open(AT_FDCWD, path, O_RDONLY|O_DIRECTORY, 0)
	if e != 0 {
		return e
	}
	names, _ := p.Getdents(fd)
	p.Close(fd)
	for _, n := range names {
		if e := p.RemoveAll(path + "/" + n); e != 0 {
			return e
		}
	}
	return p.Rmdir(path)
}

// Entry is one object in a snapshot of the tree.
type Entry struct {
	Mode   uint32
	UID    uint32
	GID    uint32
	Rdev   uint64
	Data   string
	Target string
	Ino    uint64
	Nlink  int
}

// Snapshot returns every object under prefix ("" or "/" for everything),
// keyed by canonical path.  It is an omniscient observation: no events, no
// history, no permission checks.
func (fs *FS) Snapshot(prefix string) map[string]Entry {
	out := map[string]Entry{}
	var walk func(d *Dentry, path string)
	walk = func(d *Dentry, path string) {
		i := d.inode
		if prefix == "" || prefix == "/" || path == prefix || strings.HasPrefix(path, prefix+"/") {
			out[path] = Entry{Mode: i.Mode, UID: i.UID, GID: i.GID, Rdev: i.Rdev, Data: string(i.Data), Target: i.Target, Ino: i.Ino, Nlink: i.Nlink}
		}
		if i.IsDir() {
			for _, n := range sortedNames(i) {
				cp := path + "/" + n
				if path == "/" {
					cp = "/" + n
				}
				walk(i.children[n], cp)
			}
		}
	}
	walk(fs.root, "/")
	return out
}

// Digest hashes the snapshot under prefix, ignoring inode numbers.
func (fs *FS) Digest(prefix string) string {
	snap := fs.Snapshot(prefix)
	keys := make([]string, 0, len(snap))
	for k := range snap {
		keys = append(keys, k)
	}
	sort.Strings(keys)
	h := sha256.New()
	for _, k := range keys {
		e := snap[k]
		fmt.Fprintf(h, "%s|%o|%d|%d|%d|%q|%q\n", k, e.Mode, e.UID, e.GID, e.Rdev, e.Data, e.Target)
	}
	return hex.EncodeToString(h.Sum(nil))[:16]
}

// Lookup returns the entry at a canonical path without following a final symlink.
func (fs *FS) Lookup(path string) (Entry, bool) {
	root := fs.NewProc("observer", Cred{})
	root.FS = fs
	f, e := root.resolve(AT_FDCWD, path, false)
	if e != 0 || f.dentry == nil {
		return Entry{}, false
	}
	i := f.dentry.inode
	return Entry{Mode: i.Mode, UID: i.UID, GID: i.GID, Rdev: i.Rdev, Data: string(i.Data), Target: i.Target, Ino: i.Ino, Nlink: i.Nlink}, true
}

// ErrnoName gives a short name for traces.
func ErrnoName(e syscall.Errno) string {
	switch e {
	case 0:
		return "ok"
	case syscall.ENOENT:
		return "ENOENT"
	case syscall.EEXIST:
		return "EEXIST"
	case syscall.ENOTDIR:
		return "ENOTDIR"
	case syscall.EISDIR:
		return "EISDIR"
	case syscall.EACCES:
		return "EACCES"
	case syscall.EPERM:
		return "EPERM"
	case syscall.ENOSPC:
		return "ENOSPC"
	case syscall.EIO:
		return "EIO"
	case syscall.EMFILE:
		return "EMFILE"
	case syscall.ENFILE:
		return "ENFILE"
	case syscall.ELOOP:
		return "ELOOP"
	case syscall.ENOTEMPTY:
		return "ENOTEMPTY"
	case syscall.EDQUOT:
		return "EDQUOT"
	case syscall.EBADF:
		return "EBADF"
	case syscall.EINVAL:
		return "EINVAL"
	case syscall.ENAMETOOLONG:
		return "ENAMETOOLONG"
	case syscall.EINTR:
		return "EINTR"
	case syscall.EBUSY:
		return "EBUSY"
	}
	return fmt.Sprintf("errno%d", int(e))
}

// SetMtime backdates (or postdates) a file: logical milliseconds relative to the
// start of the run, negative for "before the run began" (harness use only).
func (p *Proc) SetMtime(path string, mtime int64) syscall.Errno {
	f, e := p.resolve(AT_FDCWD, path, false)
	if e != 0 {
		return e
	}
	if f.dentry == nil {
		return syscall.ENOENT
	}
	f.dentry.inode.Mtime = mtime
	return 0
}
