// Package memfs is the simulated kernel below the library: an in-memory
// POSIX-like file system with per-process descriptor tables, permissions,
// symlinks, device nodes, and inotify.  Every operation is one atomic system
// call; the scheduler decides what happens between two calls.
package memfs

import (
	"sort"
	"strings"
	"syscall"
)

// File type bits (same values as Linux S_IF*).
const (
	S_IFMT   = 0o170000
	S_IFSOCK = 0o140000
	S_IFLNK  = 0o120000
	S_IFREG  = 0o100000
	S_IFBLK  = 0o060000
	S_IFDIR  = 0o040000
	S_IFCHR  = 0o020000
	S_IFIFO  = 0o010000
)

// AT_FDCWD as on Linux.
const AT_FDCWD = -100

// RENAME_NOREPLACE as on Linux.
const RENAME_NOREPLACE = 1

const (
	maxSymlinks = 40
	nameMax     = 255
	pathMax     = 4096
)

// Inode is a file-system object.
type Inode struct {
	Ino      uint64
	Mode     uint32 // type | permission bits
	UID, GID uint32
	Nlink    int
	Rdev     uint64
	Data     []byte             // regular files
	Target   string             // symlinks
	children map[string]*Dentry // directories
	self     *Dentry            // directories: the (single) dentry naming this directory
	watches  []*Watch
	opens    int
	freed    bool
	Gen      uint64 // bumped on every content change (observers)
	Mtime    int64  // logical modification time (see FS.MtimeGranularity)
}

// Dentry names an inode inside a directory.  It moves with rename, as in Linux.
type Dentry struct {
	parent *Inode // nil for the root
	name   string
	inode  *Inode
	dead   bool // unlinked
}

// IsDir reports whether the inode is a directory.
func (i *Inode) IsDir() bool { return i.Mode&S_IFMT == S_IFDIR }

// IsReg reports whether the inode is a regular file.
func (i *Inode) IsReg() bool { return i.Mode&S_IFMT == S_IFREG }

// IsLnk reports whether the inode is a symlink.
func (i *Inode) IsLnk() bool { return i.Mode&S_IFMT == S_IFLNK }

// Cred is a process credential.
type Cred struct{ UID, GID uint32 }

// Record is one entry of the system-call history.
type Record struct {
	Seq      int
	Step     int
	Proc     string
	Op       string
	Path     string // canonical path of the object acted on (or the path as given on lookup failure)
	Path2    string
	Mutating bool
	Err      syscall.Errno
	N        int
}

// FS is one simulated disk plus the kernel state attached to it.
type FS struct {
	root     *Dentry
	nextIno  uint64
	Hist     []Record
	KeepHist bool
	Clock    func() int // logical step, supplied by the scheduler
	inotifys []*Inotify
	nextInID int
	tmpSeq   int
	cookie   uint32
	// EventsQueued counts raw inotify events queued; Coalesced counts those
	// dropped because identical to the tail of the queue.
	EventsQueued, Coalesced int
	MaxUserWatches          int // 0 = unlimited
	MaxQueuedEvents         int // fs.inotify.max_queued_events (0 = unlimited)
	MtimeGranularity        int // modification times advance once per this many scheduler steps (0 = every step)
	EventsLost              int // events dropped because a queue was full
	watchCount              int
}

// New creates an empty file system with a root directory 0755 root:root.
func New() *FS {
	fs := &FS{nextIno: 1, KeepHist: true}
	root := fs.newInode(S_IFDIR|0o755, Cred{})
	root.Nlink = 2
	root.children = map[string]*Dentry{}
	d := &Dentry{name: "/", inode: root}
	root.self = d
	fs.root = d
	return fs
}

// now is the logical time stamp for modification times.
func (fs *FS) now() int64 {
	t := int64(fs.step()) + 1
	if g := int64(fs.MtimeGranularity); g > 1 {
		t = t / g * g
	}
	return t
}

func (fs *FS) newInode(mode uint32, c Cred) *Inode {
	ino := &Inode{Ino: fs.nextIno, Mode: mode, UID: c.UID, GID: c.GID, Nlink: 1, Mtime: fs.now()}
	fs.nextIno++
	return ino
}

// NextTemp returns the next number used for temporary file names.
func (fs *FS) NextTemp() int {
	fs.tmpSeq++
	return fs.tmpSeq
}

func (fs *FS) step() int {
	if fs.Clock != nil {
		return fs.Clock()
	}
	return 0
}

func (fs *FS) record(p *Proc, op, path, path2 string, mut bool, err syscall.Errno, n int) {
	if !fs.KeepHist {
		return
	}
	fs.Hist = append(fs.Hist, Record{Seq: len(fs.Hist), Step: fs.step(), Proc: p.Name, Op: op, Path: path, Path2: path2, Mutating: mut, Err: err, N: n})
}

// pathOf returns the canonical absolute path of a dentry.
func pathOf(d *Dentry) string {
	if d == nil {
		return "?"
	}
	if d.parent == nil {
		return "/"
	}
	var parts []string
	for x := d; x != nil && x.parent != nil; x = x.parent.self {
		parts = append(parts, x.name)
	}
	for i, j := 0, len(parts)-1; i < j; i, j = i+1, j-1 {
		parts[i], parts[j] = parts[j], parts[i]
	}
	return "/" + strings.Join(parts, "/")
}

func childPath(dir *Inode, name string) string {
	p := pathOf(dir.self)
	if p == "/" {
		return "/" + name
	}
	return p + "/" + name
}

// Proc is a simulated OS process: credentials, descriptor table, limits.
type Proc struct {
	FS     *FS
	Name   string
	Cred   Cred
	Umask  uint32
	fds    map[int]*OpenFile
	NoFile int // RLIMIT_NOFILE (max number of open descriptors)
	Dead   bool
}

// OpenFile is an open file description.
type OpenFile struct {
	dentry  *Dentry
	inode   *Inode
	flags   int
	off     int64
	dirents []string // snapshot taken by the first getdents
	dirRead bool
	in      *Inotify // inotify descriptors
	Kind    string   // "file", "dir", "inotify", "aux"
	wrote   bool
}

// NewProc creates a process on this disk.
func (fs *FS) NewProc(name string, c Cred) *Proc {
	return &Proc{FS: fs, Name: name, Cred: c, Umask: 0o022, fds: map[int]*OpenFile{}, NoFile: 1024}
}

// NumFDs is the number of open descriptors.
func (p *Proc) NumFDs() int { return len(p.fds) }

// FDKinds returns a count of open descriptors per kind.
func (p *Proc) FDKinds() map[string]int {
	out := map[string]int{}
	for _, f := range p.fds {
		out[f.Kind]++
	}
	return out
}

func (p *Proc) allocFD(f *OpenFile) (int, syscall.Errno) {
	if len(p.fds) >= p.NoFile {
		return -1, syscall.EMFILE
	}
	for fd := 3; ; fd++ {
		if _, ok := p.fds[fd]; !ok {
			p.fds[fd] = f
			return fd, 0
		}
	}
}

// perm bits
const (
	permR = 4
	permW = 2
	permX = 1
)

func (p *Proc) may(i *Inode, want uint32) bool {
	if p.Cred.UID == 0 {
		return true
	}
	var bits uint32
	switch {
	case p.Cred.UID == i.UID:
		bits = (i.Mode >> 6) & 7
	case p.Cred.GID == i.GID:
		bits = (i.Mode >> 3) & 7
	default:
		bits = i.Mode & 7
	}
	return bits&want == want
}

// lookup result
type found struct {
	parent *Inode  // directory containing the last component (nil if the path is "/")
	name   string  // last component
	dentry *Dentry // nil if the last component does not exist
}

func (f found) inode() *Inode {
	if f.dentry == nil {
		return nil
	}
	return f.dentry.inode
}

// resolve walks a path.  followLast: follow a symlink in the last component.
func (p *Proc) resolve(dirfd int, path string, followLast bool) (found, syscall.Errno) {
	n := 0
	return p.resolveN(dirfd, path, followLast, &n)
}

func (p *Proc) startDir(dirfd int, path string) (*Dentry, syscall.Errno) {
	if strings.HasPrefix(path, "/") || dirfd == AT_FDCWD {
		return p.FS.root, 0
	}
	f, ok := p.fds[dirfd]
	if !ok {
		return nil, syscall.EBADF
	}
	if f.inode == nil || !f.inode.IsDir() {
		return nil, syscall.ENOTDIR
	}
	return f.inode.self, 0
}

func (p *Proc) resolveN(dirfd int, path string, followLast bool, nlinks *int) (found, syscall.Errno) {
	if path == "" {
		return found{}, syscall.ENOENT
	}
	if len(path) >= pathMax {
		return found{}, syscall.ENAMETOOLONG
	}
	start, e := p.startDir(dirfd, path)
	if e != 0 {
		return found{}, e
	}
	return p.resolveFrom(start, path, followLast, nlinks)
}

func (p *Proc) resolveFrom(start *Dentry, path string, followLast bool, nlinks *int) (found, syscall.Errno) {
	mustDir := strings.HasSuffix(path, "/")
	var comps []string
	for _, c := range strings.Split(path, "/") {
		if c != "" {
			comps = append(comps, c)
		}
	}
	cur := start
	if len(comps) == 0 {
		return found{parent: nil, name: "/", dentry: cur}, 0
	}
	for idx, c := range comps {
		last := idx == len(comps)-1
		dir := cur.inode
		if !dir.IsDir() {
			return found{}, syscall.ENOTDIR
		}
		if dir.freed || (cur.dead && cur.parent != nil) {
			// a removed directory: lookups inside fail
			return found{}, syscall.ENOENT
		}
		if !p.may(dir, permX) {
			return found{}, syscall.EACCES
		}
		if len(c) > nameMax {
			return found{}, syscall.ENAMETOOLONG
		}
		var next *Dentry
		switch c {
		case ".":
			next = cur
		case "..":
			if cur.parent != nil {
				next = cur.parent.self
			} else {
				next = cur
			}
		default:
			next = dir.children[c]
		}
		if next == nil {
			if last {
				return found{parent: dir, name: c}, 0
			}
			return found{}, syscall.ENOENT
		}
		if next.inode.IsLnk() && (!last || followLast || mustDir) {
			*nlinks++
			if *nlinks > maxSymlinks {
				return found{}, syscall.ELOOP
			}
			tgt := next.inode.Target
			if tgt == "" {
				return found{}, syscall.ENOENT
			}
			rest := strings.Join(comps[idx+1:], "/")
			base := cur
			if strings.HasPrefix(tgt, "/") {
				base = p.FS.root
			}
			np := tgt
			if rest != "" {
				np = tgt + "/" + rest
			} else if mustDir {
				np = tgt + "/"
			}
			return p.resolveFrom(base, np, followLast, nlinks)
		}
		if last {
			if mustDir && !next.inode.IsDir() {
				return found{}, syscall.ENOTDIR
			}
			par := dir
			name := c
			if c == "." || c == ".." {
				par = next.parent
				name = next.name
			}
			return found{parent: par, name: name, dentry: next}, 0
		}
		cur = next
	}
	return found{}, syscall.ENOENT
}

// sortedNames returns the entry names of a directory in sorted order.
func sortedNames(dir *Inode) []string {
	names := make([]string, 0, len(dir.children))
	for n := range dir.children {
		names = append(names, n)
	}
	sort.Strings(names)
	return names
}

// Stat is the subset of struct stat the library can observe.
type Stat struct {
	Mtime int64
	Ino   uint64
	Mode  uint32
	Nlink int
	UID   uint32
	GID   uint32
	Rdev  uint64
	Size  int64
	Name  string
}

func statOf(i *Inode, name string) Stat {
	st := Stat{Mtime: i.Mtime, Ino: i.Ino, Mode: i.Mode, Nlink: i.Nlink, UID: i.UID, GID: i.GID, Rdev: i.Rdev, Name: name}
	switch {
	case i.IsReg():
		st.Size = int64(len(i.Data))
	case i.IsLnk():
		st.Size = int64(len(i.Target))
	case i.IsDir():
		st.Size = 4096
	}
	return st
}

// maybeFree releases an inode whose last link and last open description are
// gone, delivering IN_DELETE_SELF / IN_IGNORED to its watches.
func (fs *FS) maybeFree(i *Inode) {
	if i.freed || i.Nlink > 0 || i.opens > 0 {
		return
	}
	i.freed = true
	ws := append([]*Watch(nil), i.watches...)
	for _, w := range ws {
		fs.queue(w, IN_DELETE_SELF, 0, "")
		fs.dropWatch(w, true)
	}
}
