package memfs

import "syscall"

// inotify masks (Linux values).
const (
	IN_ACCESS      = 0x1
	IN_MODIFY      = 0x2
	IN_ATTRIB      = 0x4
	IN_MOVED_FROM  = 0x40
	IN_MOVED_TO    = 0x80
	IN_CREATE      = 0x100
	IN_DELETE      = 0x200
	IN_DELETE_SELF = 0x400
	IN_MOVE_SELF   = 0x800
	IN_Q_OVERFLOW  = 0x4000
	IN_IGNORED     = 0x8000
	IN_MASK_ADD    = 0x20000000
	IN_ISDIR       = 0x40000000
	IN_ALL_EVENTS  = 0xfff
)

// RawEvent is one struct inotify_event.
type RawEvent struct {
	Wd     int
	Mask   uint32
	Cookie uint32
	Name   string
}

// Watch is one inotify watch: it is attached to an inode, not to a path.
type Watch struct {
	Wd    int
	inode *Inode
	mask  uint32
	in    *Inotify
	gone  bool
}

// Inotify is one inotify instance.
type Inotify struct {
	ID      int
	fs      *FS
	queue   []RawEvent
	watches map[int]*Watch
	nextWd  int
	closed  bool
	Owner   *Proc
}

// InotifyInit implements inotify_init1(2).
func (p *Proc) InotifyInit() (int, *Inotify, syscall.Errno) {
	in := &Inotify{fs: p.FS, watches: map[int]*Watch{}, nextWd: 1, Owner: p}
	fd, e := p.allocFD(&OpenFile{in: in, Kind: "inotify"})
	if e != 0 {
		p.FS.record(p, "inotify_init", "", "", false, e, 0)
		return -1, nil, e
	}
	p.FS.nextInID++
	in.ID = p.FS.nextInID
	p.FS.inotifys = append(p.FS.inotifys, in)
	p.FS.record(p, "inotify_init", "", "", false, 0, fd)
	return fd, in, 0
}

// InotifyAddWatch implements inotify_add_watch(2).
func (p *Proc) InotifyAddWatch(fd int, path string, mask uint32) (int, syscall.Errno) {
	of, ok := p.fds[fd]
	if !ok || of.in == nil {
		return -1, syscall.EBADF
	}
	in := of.in
	f, e := p.resolve(AT_FDCWD, path, true)
	if e == 0 && f.dentry == nil {
		e = syscall.ENOENT
	}
	if e == 0 && !p.may(f.dentry.inode, permR) {
		e = syscall.EACCES
	}
	if e != 0 {
		p.FS.record(p, "inotify_add_watch", path, "", false, e, 0)
		return -1, e
	}
	ino := f.dentry.inode
	for _, w := range ino.watches {
		if w.in == in {
			if mask&IN_MASK_ADD != 0 {
				w.mask |= mask & IN_ALL_EVENTS
			} else {
				w.mask = mask & IN_ALL_EVENTS
			}
			p.FS.record(p, "inotify_add_watch", pathOf(f.dentry), "", false, 0, w.Wd)
			return w.Wd, 0
		}
	}
	if p.FS.MaxUserWatches > 0 && p.FS.watchCount >= p.FS.MaxUserWatches {
		p.FS.record(p, "inotify_add_watch", pathOf(f.dentry), "", false, syscall.ENOSPC, 0)
		return -1, syscall.ENOSPC
	}
	w := &Watch{Wd: in.nextWd, inode: ino, mask: mask & IN_ALL_EVENTS, in: in}
	in.nextWd++
	in.watches[w.Wd] = w
	ino.watches = append(ino.watches, w)
	p.FS.watchCount++
	p.FS.record(p, "inotify_add_watch", pathOf(f.dentry), "", false, 0, w.Wd)
	return w.Wd, 0
}

// InotifyRmWatch implements inotify_rm_watch(2).
func (p *Proc) InotifyRmWatch(fd int, wd int) syscall.Errno {
	of, ok := p.fds[fd]
	if !ok || of.in == nil {
		return syscall.EBADF
	}
	w, ok := of.in.watches[wd]
	if !ok {
		return syscall.EINVAL
	}
	p.FS.dropWatch(w, true)
	return 0
}

// dropWatch detaches a watch; with ignored it queues IN_IGNORED.
func (fs *FS) dropWatch(w *Watch, ignored bool) {
	if w.gone {
		return
	}
	w.gone = true
	fs.watchCount--
	delete(w.in.watches, w.Wd)
	ws := w.inode.watches[:0:0]
	for _, x := range w.inode.watches {
		if x != w {
			ws = append(ws, x)
		}
	}
	w.inode.watches = ws
	if ignored && !w.in.closed {
		w.in.queue = append(w.in.queue, RawEvent{Wd: w.Wd, Mask: IN_IGNORED})
		fs.EventsQueued++
	}
}

func (fs *FS) closeInotify(in *Inotify) {
	if in.closed {
		return
	}
	in.closed = true
	wds := make([]int, 0, len(in.watches))
	for wd := range in.watches {
		wds = append(wds, wd)
	}
	sortInts(wds)
	for _, wd := range wds {
		fs.dropWatch(in.watches[wd], false)
	}
	in.queue = nil
}

// queue appends an event for a watch, coalescing with an identical tail event.
func (fs *FS) queue(w *Watch, mask uint32, cookie uint32, name string) {
	if w.gone || w.in.closed {
		return
	}
	bits := mask & IN_ALL_EVENTS
	if bits&w.mask == 0 && bits&(IN_DELETE_SELF) == 0 {
		return
	}
	if bits&IN_DELETE_SELF != 0 && w.mask&IN_DELETE_SELF == 0 {
		return
	}
	ev := RawEvent{Wd: w.Wd, Mask: mask, Cookie: cookie, Name: name}
	q := w.in.queue
	if n := len(q); n > 0 && q[n-1] == ev {
		fs.Coalesced++
		return
	}
	// fs.inotify.max_queued_events: when the queue is full one IN_Q_OVERFLOW
	// event is queued and further events are lost until the queue is read
	if max := fs.MaxQueuedEvents; max > 0 && len(q) >= max-1 {
		if n := len(q); n == 0 || q[n-1].Mask != IN_Q_OVERFLOW {
			w.in.queue = append(q, RawEvent{Wd: -1, Mask: IN_Q_OVERFLOW})
		}
		fs.EventsLost++
		return
	}
	w.in.queue = append(q, ev)
	fs.EventsQueued++
}

// notifyDir reports an event about entry name to the watches of directory dir.
func (fs *FS) notifyDir(dir *Inode, mask uint32, cookie uint32, name string) {
	for _, w := range append([]*Watch(nil), dir.watches...) {
		fs.queue(w, mask, cookie, name)
	}
}

// notifyInode reports an event on the inode behind dentry d: to the inode's
// own watches (no name) and to the watches of the dentry's parent directory
// (with the dentry's name).
func (fs *FS) notifyInode(d *Dentry, mask uint32) {
	if d == nil {
		return
	}
	isdir := uint32(0)
	if d.inode.IsDir() {
		isdir = IN_ISDIR
	}
	if d.parent != nil {
		fs.notifyDir(d.parent, mask|isdir, 0, d.name)
	}
	for _, w := range append([]*Watch(nil), d.inode.watches...) {
		fs.queue(w, mask|isdir, 0, "")
	}
}

// Pending is the number of raw events queued on the instance.
func (in *Inotify) Pending() int { return len(in.queue) }

// Closed reports whether the instance was closed.
func (in *Inotify) Closed() bool { return in.closed }

// ReadAll implements read(2) on the inotify descriptor: returns and removes
// every queued event.
func (in *Inotify) ReadAll() []RawEvent {
	q := in.queue
	in.queue = nil
	return q
}

// NumWatches is the number of live watches of the instance.
func (in *Inotify) NumWatches() int { return len(in.watches) }

// WatchedPaths returns the canonical current paths of the watched inodes (sorted).
func (in *Inotify) WatchedPaths() []string {
	var out []string
	for _, w := range in.watches {
		if w.inode.self != nil {
			out = append(out, pathOf(w.inode.self))
		} else {
			out = append(out, "<file>")
		}
	}
	sortStrings(out)
	return out
}

func sortStrings(a []string) {
	for i := 1; i < len(a); i++ {
		for j := i; j > 0 && a[j] < a[j-1]; j-- {
			a[j], a[j-1] = a[j-1], a[j]
		}
	}
}

// Inotifys returns the live (not closed) inotify instances.
func (fs *FS) Inotifys() []*Inotify {
	var out []*Inotify
	for _, in := range fs.inotifys {
		if !in.closed {
			out = append(out, in)
		}
	}
	return out
}
