package memfs

import (
	"syscall"
)

// Open flags (Linux values on amd64).
const (
	O_RDONLY    = 0x0
	O_WRONLY    = 0x1
	O_RDWR      = 0x2
	O_ACCMODE   = 0x3
	O_CREAT     = 0x40
	O_EXCL      = 0x80
	O_TRUNC     = 0x200
	O_APPEND    = 0x400
	O_DIRECTORY = 0x10000
	O_NOFOLLOW  = 0x20000
	O_CLOEXEC   = 0x80000
)

func (p *Proc) dead() bool { return p.Dead }

// Open implements open(2)/openat(2).
func (p *Proc) Open(dirfd int, path string, flags int, perm uint32) (int, syscall.Errno) {
	fd, cpath, created, e := p.open(dirfd, path, flags, perm)
	mut := created || (flags&O_TRUNC != 0 && e == 0)
	op := "open"
	if flags&O_CREAT != 0 {
		op = "open(creat)"
	}
	if flags&O_TRUNC != 0 {
		op += "(trunc)"
	}
	p.FS.record(p, op, cpath, "", mut, e, fd)
	return fd, e
}

func (p *Proc) open(dirfd int, path string, flags int, perm uint32) (fd int, cpath string, created bool, err syscall.Errno) {
	cpath = path
	if len(p.fds) >= p.NoFile {
		return -1, cpath, false, syscall.EMFILE
	}
	follow := flags&O_NOFOLLOW == 0 && !(flags&O_CREAT != 0 && flags&O_EXCL != 0)
	f, e := p.resolve(dirfd, path, follow)
	if e != 0 {
		return -1, cpath, false, e
	}
	acc := flags & O_ACCMODE
	wantW := acc == O_WRONLY || acc == O_RDWR
	wantR := acc == O_RDONLY || acc == O_RDWR
	var ino *Inode
	var den *Dentry
	if f.dentry == nil {
		if flags&O_CREAT == 0 {
			return -1, cpath, false, syscall.ENOENT
		}
		if f.parent == nil {
			return -1, cpath, false, syscall.ENOENT
		}
		if !p.may(f.parent, permW|permX) {
			return -1, childPath(f.parent, f.name), false, syscall.EACCES
		}
		ino = p.FS.newInode(S_IFREG|(perm&0o7777&^p.Umask), p.Cred)
		den = &Dentry{parent: f.parent, name: f.name, inode: ino}
		f.parent.children[f.name] = den
		f.parent.Gen++
		created = true
		cpath = pathOf(den)
		p.FS.notifyDir(f.parent, IN_CREATE, 0, f.name)
	} else {
		den = f.dentry
		ino = den.inode
		cpath = pathOf(den)
		if flags&O_CREAT != 0 && flags&O_EXCL != 0 {
			return -1, cpath, false, syscall.EEXIST
		}
		if ino.IsLnk() {
			return -1, cpath, false, syscall.ELOOP
		}
		if ino.IsDir() && (wantW || flags&O_CREAT != 0 && flags&O_DIRECTORY == 0 && wantW) {
			return -1, cpath, false, syscall.EISDIR
		}
		if flags&O_DIRECTORY != 0 && !ino.IsDir() {
			return -1, cpath, false, syscall.ENOTDIR
		}
		if wantR && !p.may(ino, permR) {
			return -1, cpath, false, syscall.EACCES
		}
		if wantW && !p.may(ino, permW) {
			return -1, cpath, false, syscall.EACCES
		}
		if flags&O_TRUNC != 0 && ino.IsReg() && wantW {
			ino.Data = nil
			ino.Gen++
			ino.Mtime = p.FS.now()
			p.FS.notifyInode(den, IN_MODIFY)
		}
	}
	kind := "file"
	if ino.IsDir() {
		kind = "dir"
	}
	of := &OpenFile{dentry: den, inode: ino, flags: flags, Kind: kind}
	n, e2 := p.allocFD(of)
	if e2 != 0 {
		return -1, cpath, created, e2
	}
	ino.opens++
	return n, cpath, created, 0
}

// Close implements close(2).
func (p *Proc) Close(fd int) syscall.Errno {
	f, ok := p.fds[fd]
	if !ok {
		p.FS.record(p, "close", "", "", false, syscall.EBADF, fd)
		return syscall.EBADF
	}
	delete(p.fds, fd)
	path := ""
	if f.in != nil {
		path = "inotify"
		p.FS.closeInotify(f.in)
	} else if f.inode != nil {
		path = pathOf(f.dentry)
		f.inode.opens--
		p.FS.maybeFree(f.inode)
	}
	p.FS.record(p, "close", path, "", false, 0, fd)
	return 0
}

// AllocAux consumes a descriptor that stands for a kernel object the
// simulation does not model further (epoll instance, pipe end).
func (p *Proc) AllocAux() (int, syscall.Errno) {
	return p.allocFD(&OpenFile{Kind: "aux"})
}

// CloseAll closes every descriptor (process exit).
func (p *Proc) CloseAll() {
	fds := make([]int, 0, len(p.fds))
	for fd := range p.fds {
		fds = append(fds, fd)
	}
	sortInts(fds)
	for _, fd := range fds {
		p.Close(fd)
	}
}

func sortInts(a []int) {
	for i := 1; i < len(a); i++ {
		for j := i; j > 0 && a[j] < a[j-1]; j-- {
			a[j], a[j-1] = a[j-1], a[j]
		}
	}
}

// PathOfFD returns the canonical path of an open descriptor.
func (p *Proc) PathOfFD(fd int) string {
	f, ok := p.fds[fd]
	if !ok || f.dentry == nil {
		return ""
	}
	return pathOf(f.dentry)
}

// Read implements read(2): up to n bytes at the current offset.
func (p *Proc) Read(fd int, n int) ([]byte, syscall.Errno) {
	f, ok := p.fds[fd]
	if !ok || f.inode == nil {
		return nil, syscall.EBADF
	}
	if f.flags&O_ACCMODE == O_WRONLY {
		return nil, syscall.EBADF
	}
	if f.inode.IsDir() {
		p.FS.record(p, "read", pathOf(f.dentry), "", false, syscall.EISDIR, 0)
		return nil, syscall.EISDIR
	}
	if !f.inode.IsReg() {
		return nil, syscall.EINVAL
	}
	d := f.inode.Data
	if f.off >= int64(len(d)) {
		p.FS.record(p, "read", pathOf(f.dentry), "", false, 0, 0)
		return nil, 0
	}
	end := f.off + int64(n)
	if end > int64(len(d)) {
		end = int64(len(d))
	}
	out := append([]byte(nil), d[f.off:end]...)
	f.off = end
	p.FS.record(p, "read", pathOf(f.dentry), "", false, 0, len(out))
	return out, 0
}

// Write implements write(2) for the whole buffer.
func (p *Proc) Write(fd int, b []byte) (int, syscall.Errno) {
	f, ok := p.fds[fd]
	if !ok || f.inode == nil {
		return 0, syscall.EBADF
	}
	if f.flags&O_ACCMODE == O_RDONLY {
		p.FS.record(p, "write", pathOf(f.dentry), "", false, syscall.EBADF, 0)
		return 0, syscall.EBADF
	}
	if !f.inode.IsReg() {
		return 0, syscall.EINVAL
	}
	if len(b) == 0 {
		return 0, 0
	}
	ino := f.inode
	if f.flags&O_APPEND != 0 {
		f.off = int64(len(ino.Data))
	}
	end := f.off + int64(len(b))
	if end > int64(len(ino.Data)) {
		nd := make([]byte, end)
		copy(nd, ino.Data)
		ino.Data = nd
	} else {
		// copy-on-write so that earlier snapshots stay intact
		ino.Data = append([]byte(nil), ino.Data...)
	}
	copy(ino.Data[f.off:], b)
	f.off = end
	f.wrote = true
	ino.Gen++
	ino.Mtime = p.FS.now()
	p.FS.notifyInode(f.dentry, IN_MODIFY)
	p.FS.record(p, "write", pathOf(f.dentry), "", true, 0, len(b))
	return len(b), 0
}

// Wrote reports whether this descriptor has been written through.
func (p *Proc) Wrote(fd int) bool {
	f, ok := p.fds[fd]
	return ok && f.wrote
}

// TruncateTail drops the last n bytes written through fd (used to model a
// deferred write-back failure reported at close).
func (p *Proc) TruncateTail(fd int, n int) {
	f, ok := p.fds[fd]
	if !ok || f.inode == nil || !f.inode.IsReg() {
		return
	}
	if n > len(f.inode.Data) {
		n = len(f.inode.Data)
	}
	f.inode.Data = append([]byte(nil), f.inode.Data[:len(f.inode.Data)-n]...)
	f.inode.Gen++
}

// Seek implements lseek(2).
func (p *Proc) Seek(fd int, off int64, whence int) (int64, syscall.Errno) {
	f, ok := p.fds[fd]
	if !ok || f.inode == nil {
		return 0, syscall.EBADF
	}
	switch whence {
	case 0:
		f.off = off
	case 1:
		f.off += off
	case 2:
		f.off = int64(len(f.inode.Data)) + off
	default:
		return 0, syscall.EINVAL
	}
	if f.off < 0 {
		f.off = 0
		return 0, syscall.EINVAL
	}
	if f.inode.IsDir() && f.off == 0 {
		f.dirRead = false
		f.dirents = nil
	}
	return f.off, 0
}

// Ftruncate implements ftruncate(2).
func (p *Proc) Ftruncate(fd int, size int64) syscall.Errno {
	f, ok := p.fds[fd]
	if !ok || f.inode == nil {
		return syscall.EBADF
	}
	if f.flags&O_ACCMODE == O_RDONLY || !f.inode.IsReg() {
		return syscall.EINVAL
	}
	p.truncate(f.dentry, size)
	p.FS.record(p, "ftruncate", pathOf(f.dentry), "", true, 0, int(size))
	return 0
}

func (p *Proc) truncate(d *Dentry, size int64) {
	ino := d.inode
	nd := make([]byte, size)
	copy(nd, ino.Data)
	ino.Data = nd
	ino.Gen++
	ino.Mtime = p.FS.now()
	p.FS.notifyInode(d, IN_MODIFY)
}

// Truncate implements truncate(2).
func (p *Proc) Truncate(path string, size int64) syscall.Errno {
	f, e := p.resolve(AT_FDCWD, path, true)
	if e == 0 && f.dentry == nil {
		e = syscall.ENOENT
	}
	if e == 0 && f.dentry.inode.IsDir() {
		e = syscall.EISDIR
	}
	if e == 0 && !p.may(f.dentry.inode, permW) {
		e = syscall.EACCES
	}
	if e != 0 {
		p.FS.record(p, "truncate", path, "", false, e, 0)
		return e
	}
	p.truncate(f.dentry, size)
	p.FS.record(p, "truncate", pathOf(f.dentry), "", true, 0, int(size))
	return 0
}

// Fstat implements fstat(2).
func (p *Proc) Fstat(fd int) (Stat, syscall.Errno) {
	f, ok := p.fds[fd]
	if !ok || f.inode == nil {
		return Stat{}, syscall.EBADF
	}
	p.FS.record(p, "fstat", pathOf(f.dentry), "", false, 0, 0)
	return statOf(f.inode, f.dentry.name), 0
}

// Stat implements stat(2) (follow=true) and lstat(2) (follow=false).
func (p *Proc) Stat(dirfd int, path string, follow bool) (Stat, syscall.Errno) {
	op := "lstat"
	if follow {
		op = "stat"
	}
	f, e := p.resolve(dirfd, path, follow)
	if e == 0 && f.dentry == nil {
		e = syscall.ENOENT
	}
	if e != 0 {
		p.FS.record(p, op, path, "", false, e, 0)
		return Stat{}, e
	}
	p.FS.record(p, op, pathOf(f.dentry), "", false, 0, 0)
	return statOf(f.dentry.inode, f.dentry.name), 0
}

// Getdents returns the (remaining) entries of an open directory: all of them
// on the first call after open/rewind, none afterwards.
func (p *Proc) Getdents(fd int) ([]string, syscall.Errno) {
	f, ok := p.fds[fd]
	if !ok || f.inode == nil {
		return nil, syscall.EBADF
	}
	if !f.inode.IsDir() {
		p.FS.record(p, "getdents", pathOf(f.dentry), "", false, syscall.ENOTDIR, 0)
		return nil, syscall.ENOTDIR
	}
	if f.dirRead {
		return nil, 0
	}
	f.dirRead = true
	var names []string
	if !f.inode.freed && !(f.dentry.dead) {
		names = sortedNames(f.inode)
	}
	p.FS.record(p, "getdents", pathOf(f.dentry), "", false, 0, len(names))
	return names, 0
}

// Mkdir implements mkdir(2).
func (p *Proc) Mkdir(path string, perm uint32) syscall.Errno {
	f, e := p.resolve(AT_FDCWD, path, false)
	cpath := path
	if e == 0 {
		switch {
		case f.dentry != nil:
			e = syscall.EEXIST
			cpath = pathOf(f.dentry)
		case f.parent == nil:
			e = syscall.EEXIST
		case !p.may(f.parent, permW|permX):
			e = syscall.EACCES
			cpath = childPath(f.parent, f.name)
		}
	}
	if e != 0 {
		p.FS.record(p, "mkdir", cpath, "", false, e, 0)
		return e
	}
	ino := p.FS.newInode(S_IFDIR|(perm&0o7777&^p.Umask), p.Cred)
	ino.Nlink = 2
	ino.children = map[string]*Dentry{}
	d := &Dentry{parent: f.parent, name: f.name, inode: ino}
	ino.self = d
	f.parent.children[f.name] = d
	f.parent.Gen++
	p.FS.notifyDir(f.parent, IN_CREATE|IN_ISDIR, 0, f.name)
	p.FS.record(p, "mkdir", pathOf(d), "", true, 0, 0)
	return 0
}

// Rmdir implements rmdir(2).
func (p *Proc) Rmdir(path string) syscall.Errno {
	f, e := p.resolve(AT_FDCWD, path, false)
	cpath := path
	if e == 0 {
		switch {
		case f.dentry == nil:
			e = syscall.ENOENT
		case f.parent == nil:
			e = syscall.EBUSY
		case !f.dentry.inode.IsDir():
			e = syscall.ENOTDIR
			cpath = pathOf(f.dentry)
		case len(f.dentry.inode.children) > 0:
			e = syscall.ENOTEMPTY
			cpath = pathOf(f.dentry)
		case !p.may(f.parent, permW|permX):
			e = syscall.EACCES
			cpath = pathOf(f.dentry)
		}
	}
	if e != 0 {
		p.FS.record(p, "rmdir", cpath, "", false, e, 0)
		return e
	}
	cpath = pathOf(f.dentry)
	p.removeDentry(f.dentry, true)
	p.FS.record(p, "rmdir", cpath, "", true, 0, 0)
	return 0
}

// removeDentry unlinks a dentry from its parent and emits the events.
func (p *Proc) removeDentry(d *Dentry, isDir bool) {
	par := d.parent
	delete(par.children, d.name)
	par.Gen++
	mask := uint32(IN_DELETE)
	if isDir {
		mask |= IN_ISDIR
		d.inode.Nlink = 0
	} else {
		d.inode.Nlink--
	}
	p.FS.notifyDir(par, mask, 0, d.name)
	d.dead = true
	p.FS.maybeFree(d.inode)
}

// Unlink implements unlink(2) / unlinkat(2) without AT_REMOVEDIR.
func (p *Proc) Unlink(dirfd int, path string) syscall.Errno {
	f, e := p.resolve(dirfd, path, false)
	cpath := path
	if e == 0 {
		switch {
		case f.dentry == nil:
			e = syscall.ENOENT
		case f.parent == nil:
			e = syscall.EISDIR
		case f.dentry.inode.IsDir():
			e = syscall.EISDIR
			cpath = pathOf(f.dentry)
		case !p.may(f.parent, permW|permX):
			e = syscall.EACCES
			cpath = pathOf(f.dentry)
		}
	}
	if e != 0 {
		p.FS.record(p, "unlink", cpath, "", false, e, 0)
		return e
	}
	cpath = pathOf(f.dentry)
	p.removeDentry(f.dentry, false)
	p.FS.record(p, "unlink", cpath, "", true, 0, 0)
	return 0
}

func isAncestor(a, b *Inode) bool {
	// is a an ancestor of (or equal to) b ?
	for x := b; x != nil; {
		if x == a {
			return true
		}
		if x.self == nil || x.self.parent == nil {
			return false
		}
		x = x.self.parent
	}
	return false
}

// Rename implements renameat2(2).
func (p *Proc) Rename(olddirfd int, oldpath string, newdirfd int, newpath string, flags uint) syscall.Errno {
	cold, cnew, e := p.rename(olddirfd, oldpath, newdirfd, newpath, flags)
	p.FS.record(p, "rename", cold, cnew, e == 0, e, 0)
	return e
}

func (p *Proc) rename(olddirfd int, oldpath string, newdirfd int, newpath string, flags uint) (string, string, syscall.Errno) {
	if flags&^RENAME_NOREPLACE != 0 {
		return oldpath, newpath, syscall.EINVAL
	}
	of, e := p.resolve(olddirfd, oldpath, false)
	if e != 0 {
		return oldpath, newpath, e
	}
	if of.dentry == nil {
		return oldpath, newpath, syscall.ENOENT
	}
	cold := pathOf(of.dentry)
	nf, e := p.resolve(newdirfd, newpath, false)
	if e != 0 {
		return cold, newpath, e
	}
	if of.parent == nil || nf.parent == nil {
		return cold, newpath, syscall.EBUSY
	}
	cnew := childPath(nf.parent, nf.name)
	if !p.may(of.parent, permW|permX) || !p.may(nf.parent, permW|permX) {
		return cold, cnew, syscall.EACCES
	}
	src := of.dentry
	if nf.dentry != nil {
		if flags&RENAME_NOREPLACE != 0 {
			return cold, cnew, syscall.EEXIST
		}
		dst := nf.dentry
		if dst.inode == src.inode {
			return cold, cnew, 0 // same file: nothing happens
		}
		switch {
		case src.inode.IsDir() && !dst.inode.IsDir():
			return cold, cnew, syscall.ENOTDIR
		case !src.inode.IsDir() && dst.inode.IsDir():
			return cold, cnew, syscall.EISDIR
		case dst.inode.IsDir() && len(dst.inode.children) > 0:
			return cold, cnew, syscall.ENOTEMPTY
		}
	}
	if src.inode.IsDir() && isAncestor(src.inode, nf.parent) {
		return cold, cnew, syscall.EINVAL
	}
	// perform
	p.FS.cookie++
	cookie := p.FS.cookie
	isdir := uint32(0)
	if src.inode.IsDir() {
		isdir = IN_ISDIR
	}
	var replaced *Inode
	if nf.dentry != nil {
		replaced = nf.dentry.inode
		nf.dentry.dead = true
		if replaced.IsDir() {
			replaced.Nlink = 0
		} else {
			replaced.Nlink--
		}
	}
	delete(of.parent.children, src.name)
	of.parent.Gen++
	oldName := src.name
	src.parent = nf.parent
	src.name = nf.name
	nf.parent.children[nf.name] = src
	nf.parent.Gen++
	p.FS.notifyDir(of.parent, IN_MOVED_FROM|isdir, cookie, oldName)
	p.FS.notifyDir(nf.parent, IN_MOVED_TO|isdir, cookie, nf.name)
	for _, w := range append([]*Watch(nil), src.inode.watches...) {
		p.FS.queue(w, IN_MOVE_SELF, 0, "")
	}
	if replaced != nil {
		p.FS.maybeFree(replaced)
	}
	return cold, cnew, 0
}

// Link implements link(2).
func (p *Proc) Link(oldpath, newpath string) syscall.Errno {
	of, e := p.resolve(AT_FDCWD, oldpath, false)
	cold, cnew := oldpath, newpath
	var nf found
	if e == 0 && of.dentry == nil {
		e = syscall.ENOENT
	}
	if e == 0 {
		cold = pathOf(of.dentry)
		nf, e = p.resolve(AT_FDCWD, newpath, false)
	}
	if e == 0 {
		switch {
		case nf.dentry != nil:
			e = syscall.EEXIST
		case nf.parent == nil:
			e = syscall.EEXIST
		case !p.may(nf.parent, permW|permX):
			e = syscall.EACCES
		case of.dentry.inode.IsDir():
			e = syscall.EPERM
		}
	}
	if e != 0 {
		p.FS.record(p, "link", cold, cnew, false, e, 0)
		return e
	}
	d := &Dentry{parent: nf.parent, name: nf.name, inode: of.dentry.inode}
	nf.parent.children[nf.name] = d
	nf.parent.Gen++
	of.dentry.inode.Nlink++
	p.FS.notifyDir(nf.parent, IN_CREATE, 0, nf.name)
	p.FS.record(p, "link", cold, pathOf(d), true, 0, 0)
	return 0
}

func (p *Proc) createNode(op, path string, mode uint32, rdev uint64, target string) syscall.Errno {
	f, e := p.resolve(AT_FDCWD, path, false)
	cpath := path
	if e == 0 {
		switch {
		case f.dentry != nil:
			e = syscall.EEXIST
		case f.parent == nil:
			e = syscall.EEXIST
		case !p.may(f.parent, permW|permX):
			e = syscall.EACCES
		}
	}
	if e != 0 {
		p.FS.record(p, op, cpath, "", false, e, 0)
		return e
	}
	ino := p.FS.newInode(mode, p.Cred)
	ino.Rdev = rdev
	ino.Target = target
	d := &Dentry{parent: f.parent, name: f.name, inode: ino}
	f.parent.children[f.name] = d
	f.parent.Gen++
	p.FS.notifyDir(f.parent, IN_CREATE, 0, f.name)
	p.FS.record(p, op, pathOf(d), target, true, 0, 0)
	return 0
}

// Symlink implements symlink(2).
func (p *Proc) Symlink(target, path string) syscall.Errno {
	return p.createNode("symlink", path, S_IFLNK|0o777, 0, target)
}

// Mknod implements mknod(2) for device nodes, fifos, sockets and regular files.
func (p *Proc) Mknod(path string, mode uint32, dev uint64) syscall.Errno {
	t := mode & S_IFMT
	if t == 0 {
		t = S_IFREG
	}
	if (t == S_IFBLK || t == S_IFCHR) && p.Cred.UID != 0 {
		p.FS.record(p, "mknod", path, "", false, syscall.EPERM, 0)
		return syscall.EPERM
	}
	return p.createNode("mknod", path, t|(mode&0o7777&^p.Umask), dev, "")
}

// Readlink implements readlink(2).
func (p *Proc) Readlink(path string) (string, syscall.Errno) {
	f, e := p.resolve(AT_FDCWD, path, false)
	if e == 0 && f.dentry == nil {
		e = syscall.ENOENT
	}
	if e == 0 && !f.dentry.inode.IsLnk() {
		e = syscall.EINVAL
	}
	if e != 0 {
		return "", e
	}
	return f.dentry.inode.Target, 0
}

// Chmod implements chmod(2).
func (p *Proc) Chmod(path string, mode uint32) syscall.Errno {
	f, e := p.resolve(AT_FDCWD, path, true)
	if e == 0 && f.dentry == nil {
		e = syscall.ENOENT
	}
	if e == 0 && p.Cred.UID != 0 && p.Cred.UID != f.dentry.inode.UID {
		e = syscall.EPERM
	}
	if e != 0 {
		p.FS.record(p, "chmod", path, "", false, e, 0)
		return e
	}
	ino := f.dentry.inode
	ino.Mode = ino.Mode&S_IFMT | mode&0o7777
	ino.Gen++
	p.FS.notifyInode(f.dentry, IN_ATTRIB)
	p.FS.record(p, "chmod", pathOf(f.dentry), "", true, 0, int(mode))
	return 0
}

// Chown implements chown(2) (root only).
func (p *Proc) Chown(path string, uid, gid uint32) syscall.Errno {
	f, e := p.resolve(AT_FDCWD, path, true)
	if e == 0 && f.dentry == nil {
		e = syscall.ENOENT
	}
	if e == 0 && p.Cred.UID != 0 {
		e = syscall.EPERM
	}
	if e != 0 {
		p.FS.record(p, "chown", path, "", false, e, 0)
		return e
	}
	f.dentry.inode.UID, f.dentry.inode.GID = uid, gid
	p.FS.notifyInode(f.dentry, IN_ATTRIB)
	p.FS.record(p, "chown", pathOf(f.dentry), "", true, 0, 0)
	return 0
}
