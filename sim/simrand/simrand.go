// Package simrand replaces math/rand in the scratch copy: the top-level
// functions draw from the simulated world's own generator (sched.World.NextRand),
// so that "random" names, jitter or back-off in the code under test are the
// same in every execution of a run.  Explicitly seeded generators (New,
// NewSource) are the standard library's: they are deterministic given their
// seed, and a seed taken from the clock reads the simulated clock.
package simrand

import (
	"math/rand"

	"verif/sim/sched"
)

type (
	Rand     = rand.Rand
	Source   = rand.Source
	Source64 = rand.Source64
	Zipf     = rand.Zipf
)

type worldSource struct{}

func cur() *sched.World {
	w := sched.Cur()
	if w == nil {
		panic("simrand: random number drawn outside a simulated world")
	}
	return w
}

func (worldSource) Int63() int64   { return int64(cur().NextRand() >> 1) }
func (worldSource) Uint64() uint64 { return cur().NextRand() }
func (worldSource) Seed(int64)     {}

// g returns a generator over the world's source; it holds no state of its
// own between calls (rand.Rand buffers bytes for Read).
func g() *rand.Rand { return rand.New(worldSource{}) }

func New(src Source) *Rand                             { return rand.New(src) }
func NewSource(seed int64) Source                      { return rand.NewSource(seed) }
func NewZipf(r *Rand, s, v float64, imax uint64) *Zipf { return rand.NewZipf(r, s, v, imax) }

func Seed(int64)                         {}
func Int() int                           { return g().Int() }
func Intn(n int) int                     { return g().Intn(n) }
func Int31() int32                       { return g().Int31() }
func Int31n(n int32) int32               { return g().Int31n(n) }
func Int63() int64                       { return g().Int63() }
func Int63n(n int64) int64               { return g().Int63n(n) }
func Uint32() uint32                     { return g().Uint32() }
func Uint64() uint64                     { return g().Uint64() }
func Float32() float32                   { return g().Float32() }
func Float64() float64                   { return g().Float64() }
func ExpFloat64() float64                { return g().ExpFloat64() }
func NormFloat64() float64               { return g().NormFloat64() }
func Perm(n int) []int                   { return g().Perm(n) }
func Shuffle(n int, swap func(i, j int)) { g().Shuffle(n, swap) }
func Read(p []byte) (int, error)         { return g().Read(p) }
