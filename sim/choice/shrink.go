package choice

import (
	"sort"
	"time"
)

// Outcome of executing one tape.
type Outcome struct {
	Interesting bool     // same violation class as the one being minimised
	Tape        []uint32 // the tape actually consumed (canonical form)
	Spans       []Span
}

// less is the shortlex order on tapes: shorter first, then smaller values.
func less(a, b []uint32) bool {
	if len(a) != len(b) {
		return len(a) < len(b)
	}
	for i := range a {
		if a[i] != b[i] {
			return a[i] < b[i]
		}
	}
	return false
}

func trimZeros(t []uint32) []uint32 {
	n := len(t)
	for n > 0 && t[n-1] == 0 {
		n--
	}
	return t[:n]
}

// ShrinkStats reports what the minimiser did.
type ShrinkStats struct {
	Executions int
	Accepted   int
	FromLen    int
	ToLen      int
}

// Shrink minimises a failing tape.  run must execute the tape in replay mode
// and say whether the same class of violation occurred.  The result is a tape
// that is still interesting (it has been executed), or the input if nothing
// smaller was found.  The first execution re-validates the input; if it is
// not interesting the input is returned with ok=false (flaky: a determinism
// bug in the simulator, reported as such by the caller).
func Shrink(tape []uint32, run func([]uint32) Outcome, maxExec int, deadline time.Time) (best []uint32, st ShrinkStats, ok bool) {
	st.FromLen = len(tape)
	exec := func(t []uint32) Outcome {
		st.Executions++
		return run(t)
	}
	o := exec(tape)
	if !o.Interesting {
		return tape, st, false
	}
	cur := trimZeros(append([]uint32(nil), o.Tape...))
	spans := o.Spans
	over := func() bool {
		return st.Executions >= maxExec || time.Now().After(deadline)
	}
	try := func(cand []uint32) bool {
		if over() {
			return false
		}
		cand = trimZeros(cand)
		if !less(cand, cur) {
			return false
		}
		o := exec(cand)
		if !o.Interesting {
			return false
		}
		c := trimZeros(append([]uint32(nil), o.Tape...))
		if !less(c, cur) {
			// the canonical form is not smaller; still accept the candidate
			// itself if it is smaller (it reproduces), keeping spans.
			c = cand
		}
		cur = c
		spans = o.Spans
		st.Accepted++
		return true
	}
	del := func(t []uint32, a, b int) []uint32 {
		if a < 0 {
			a = 0
		}
		if b > len(t) {
			b = len(t)
		}
		if a >= b {
			return t
		}
		out := make([]uint32, 0, len(t)-(b-a))
		out = append(out, t[:a]...)
		out = append(out, t[b:]...)
		return out
	}
	for round := 0; round < 12 && !over(); round++ {
		improved := false
		// 1. truncate the tail (an exhausted tape reads as zeros)
		for n := len(cur) / 2; n >= 1 && !over(); n /= 2 {
			for len(cur) > n && try(cur[:len(cur)-n]) {
				improved = true
			}
		}
		// 2. delete whole spans, largest first
		for again := true; again && !over(); {
			again = false
			ss := append([]Span(nil), spans...)
			sort.SliceStable(ss, func(i, j int) bool {
				return ss[i].End-ss[i].Start > ss[j].End-ss[j].Start
			})
			for _, sp := range ss {
				if sp.End <= sp.Start || sp.Start >= len(cur) {
					continue
				}
				if try(del(cur, sp.Start, sp.End)) {
					improved, again = true, true
					break
				}
			}
		}
		// 3. delete fixed-size chunks from the end toward the start
		for _, k := range []int{16, 8, 4, 2, 1} {
			for i := len(cur) - k; i >= 0 && !over(); i-- {
				if i+k > len(cur) {
					continue
				}
				if try(del(cur, i, i+k)) {
					improved = true
				}
			}
		}
		// 4. lower individual values
		for i := 0; i < len(cur) && !over(); i++ {
			if cur[i] == 0 {
				continue
			}
			c := append([]uint32(nil), cur...)
			c[i] = 0
			if try(c) {
				improved = true
				continue
			}
			for i < len(cur) && cur[i] > 1 && !over() {
				c = append([]uint32(nil), cur...)
				c[i] = cur[i] / 2
				if !try(c) {
					break
				}
				improved = true
			}
			if i < len(cur) && cur[i] > 0 {
				c = append([]uint32(nil), cur...)
				c[i] = cur[i] - 1
				if try(c) {
					improved = true
				}
			}
		}
		if !improved {
			break
		}
	}
	st.ToLen = len(cur)
	return cur, st, true
}
