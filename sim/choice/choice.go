// Package choice is the single source of nondeterminism of the simulator.
//
// Every decision of a simulated run (which task runs next, whether a fault
// fires, which operation a client performs, file contents, map iteration
// order, ...) is one call on a Source.  A Source is either *generating*
// (values come from a splitmix64 PRNG seeded with one integer and are
// recorded on a tape) or *replaying* (values come from a tape; an exhausted
// tape yields 0).  0 is always the "simplest" answer by convention of the
// callers (keep running the same task, no fault, shortest program ...), so a
// truncated or zeroed tape is a simpler run.  The tape is the replay file.
package choice

// Span marks a contiguous group of draws that belong together (one generated
// operation, one file, ...).  The shrinker tries to delete whole spans.
type Span struct {
	Start, End int // tape[Start:End]
	Label      string
}

// Source hands out choices.
type Source struct {
	Seed   uint64
	state  uint64
	tape   []uint32 // replay input (replay mode)
	pos    int
	replay bool
	Rec    []uint32 // values actually returned, in order
	Spans  []Span
	open   []int // stack of indexes into Spans
	// Overrun is set when a replayed tape ran out (informational).
	Overrun bool
}

// New returns a generating source.
func New(seed uint64) *Source {
	return &Source{Seed: seed, state: seed}
}

// Replay returns a source that replays tape.
func Replay(tape []uint32) *Source {
	return &Source{tape: tape, replay: true}
}

// Mix derives an independent seed from a seed and indexes (splitmix64 steps).
func Mix(seed uint64, xs ...uint64) uint64 {
	s := seed
	for _, x := range xs {
		s ^= x + 0x9e3779b97f4a7c15 + (s << 6) + (s >> 2)
		s = next(&s)
	}
	return s
}

func next(state *uint64) uint64 {
	*state += 0x9e3779b97f4a7c15
	z := *state
	z = (z ^ (z >> 30)) * 0xbf58476d1ce4e5b9
	z = (z ^ (z >> 27)) * 0x94d049bb133111eb
	return z ^ (z >> 31)
}

// Intn returns a value in [0, n).  n <= 1 returns 0 without consuming a draw.
func (s *Source) Intn(n int) int {
	if n <= 1 {
		return 0
	}
	var v int
	if s.replay {
		if s.pos < len(s.tape) {
			v = int(s.tape[s.pos])
			if v >= n {
				v = v % n
			}
		} else {
			s.Overrun = true
			v = 0
		}
		s.pos++
	} else {
		v = int(next(&s.state) % uint64(n))
	}
	s.Rec = append(s.Rec, uint32(v))
	return v
}

// Range returns a value in [lo, hi].
func (s *Source) Range(lo, hi int) int {
	if hi <= lo {
		return lo
	}
	return lo + s.Intn(hi-lo+1)
}

// Bool returns true with probability num/den; the recorded value is 0 for
// false so that shrinking moves toward false.
func (s *Source) Bool(num, den int) bool {
	if num <= 0 {
		return false
	}
	if num >= den {
		return true
	}
	// value 0..den-1 ; true iff value >= den-num
	return s.Intn(den) >= den-num
}

// Pick returns an index chosen with the given integer weights; index 0 is the
// simplest alternative.
func (s *Source) Pick(weights ...int) int {
	total := 0
	for _, w := range weights {
		total += w
	}
	if total <= 0 {
		return 0
	}
	v := s.Intn(total)
	for i, w := range weights {
		if v < w {
			return i
		}
		v -= w
	}
	return len(weights) - 1
}

// Begin opens a span.
func (s *Source) Begin(label string) {
	s.Spans = append(s.Spans, Span{Start: len(s.Rec), End: -1, Label: label})
	s.open = append(s.open, len(s.Spans)-1)
}

// End closes the innermost open span.
func (s *Source) End() {
	if len(s.open) == 0 {
		return
	}
	i := s.open[len(s.open)-1]
	s.open = s.open[:len(s.open)-1]
	s.Spans[i].End = len(s.Rec)
}

// Tape returns a copy of the values returned so far.
func (s *Source) Tape() []uint32 {
	return append([]uint32(nil), s.Rec...)
}

// Draws is the number of draws made.
func (s *Source) Draws() int { return len(s.Rec) }
