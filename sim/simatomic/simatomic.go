// Package simatomic replaces sync/atomic in the scratch copy.  Under the
// simulator exactly one task runs at a time, so the operations themselves
// need no hardware atomics; what matters is that they are synchronisation:
// every store/read-modify-write releases, every load/read-modify-write
// acquires, the vector clock attached to the address, so that the
// happens-before race detector sees the edges an atomic handshake creates.
package simatomic

import (
	real "sync/atomic"
	"unsafe"

	"verif/sim/sched"
)

func acq(p unsafe.Pointer) {
	if w := sched.Cur(); w != nil && !w.Inert() {
		w.Acquire(p)
	}
}

func rel(p unsafe.Pointer) {
	if w := sched.Cur(); w != nil && !w.Inert() {
		w.Release(p)
	}
}

func LoadInt32(a *int32) int32     { acq(unsafe.Pointer(a)); return real.LoadInt32(a) }
func LoadInt64(a *int64) int64     { acq(unsafe.Pointer(a)); return real.LoadInt64(a) }
func LoadUint32(a *uint32) uint32  { acq(unsafe.Pointer(a)); return real.LoadUint32(a) }
func LoadUint64(a *uint64) uint64  { acq(unsafe.Pointer(a)); return real.LoadUint64(a) }
func StoreInt32(a *int32, v int32) { real.StoreInt32(a, v); rel(unsafe.Pointer(a)) }
func StoreInt64(a *int64, v int64) { real.StoreInt64(a, v); rel(unsafe.Pointer(a)) }
func StoreUint32(a *uint32, v uint32) {
	real.StoreUint32(a, v)
	rel(unsafe.Pointer(a))
}
func StoreUint64(a *uint64, v uint64) {
	real.StoreUint64(a, v)
	rel(unsafe.Pointer(a))
}
func AddInt32(a *int32, d int32) int32 {
	acq(unsafe.Pointer(a))
	v := real.AddInt32(a, d)
	rel(unsafe.Pointer(a))
	return v
}
func AddInt64(a *int64, d int64) int64 {
	acq(unsafe.Pointer(a))
	v := real.AddInt64(a, d)
	rel(unsafe.Pointer(a))
	return v
}
func AddUint32(a *uint32, d uint32) uint32 {
	acq(unsafe.Pointer(a))
	v := real.AddUint32(a, d)
	rel(unsafe.Pointer(a))
	return v
}
func AddUint64(a *uint64, d uint64) uint64 {
	acq(unsafe.Pointer(a))
	v := real.AddUint64(a, d)
	rel(unsafe.Pointer(a))
	return v
}
func CompareAndSwapInt32(a *int32, o, n int32) bool {
	acq(unsafe.Pointer(a))
	ok := real.CompareAndSwapInt32(a, o, n)
	rel(unsafe.Pointer(a))
	return ok
}
func CompareAndSwapInt64(a *int64, o, n int64) bool {
	acq(unsafe.Pointer(a))
	ok := real.CompareAndSwapInt64(a, o, n)
	rel(unsafe.Pointer(a))
	return ok
}
func CompareAndSwapUint32(a *uint32, o, n uint32) bool {
	acq(unsafe.Pointer(a))
	ok := real.CompareAndSwapUint32(a, o, n)
	rel(unsafe.Pointer(a))
	return ok
}
func SwapInt32(a *int32, n int32) int32 {
	acq(unsafe.Pointer(a))
	v := real.SwapInt32(a, n)
	rel(unsafe.Pointer(a))
	return v
}

// Bool mirrors atomic.Bool.
type Bool struct{ v real.Bool }

func (b *Bool) Load() bool   { acq(unsafe.Pointer(b)); return b.v.Load() }
func (b *Bool) Store(x bool) { b.v.Store(x); rel(unsafe.Pointer(b)) }
func (b *Bool) Swap(x bool) bool {
	acq(unsafe.Pointer(b))
	o := b.v.Swap(x)
	rel(unsafe.Pointer(b))
	return o
}
func (b *Bool) CompareAndSwap(o, n bool) bool {
	acq(unsafe.Pointer(b))
	ok := b.v.CompareAndSwap(o, n)
	rel(unsafe.Pointer(b))
	return ok
}

// Int32 mirrors atomic.Int32.
type Int32 struct{ v real.Int32 }

func (b *Int32) Load() int32   { acq(unsafe.Pointer(b)); return b.v.Load() }
func (b *Int32) Store(x int32) { b.v.Store(x); rel(unsafe.Pointer(b)) }
func (b *Int32) Add(d int32) int32 {
	acq(unsafe.Pointer(b))
	o := b.v.Add(d)
	rel(unsafe.Pointer(b))
	return o
}
func (b *Int32) CompareAndSwap(o, n int32) bool {
	acq(unsafe.Pointer(b))
	ok := b.v.CompareAndSwap(o, n)
	rel(unsafe.Pointer(b))
	return ok
}

// Int64 mirrors atomic.Int64.
type Int64 struct{ v real.Int64 }

func (b *Int64) Load() int64   { acq(unsafe.Pointer(b)); return b.v.Load() }
func (b *Int64) Store(x int64) { b.v.Store(x); rel(unsafe.Pointer(b)) }
func (b *Int64) Add(d int64) int64 {
	acq(unsafe.Pointer(b))
	o := b.v.Add(d)
	rel(unsafe.Pointer(b))
	return o
}
func (b *Int64) CompareAndSwap(o, n int64) bool {
	acq(unsafe.Pointer(b))
	ok := b.v.CompareAndSwap(o, n)
	rel(unsafe.Pointer(b))
	return ok
}

// Uint32 mirrors atomic.Uint32.
type Uint32 struct{ v real.Uint32 }

func (b *Uint32) Load() uint32   { acq(unsafe.Pointer(b)); return b.v.Load() }
func (b *Uint32) Store(x uint32) { b.v.Store(x); rel(unsafe.Pointer(b)) }
func (b *Uint32) Add(d uint32) uint32 {
	acq(unsafe.Pointer(b))
	o := b.v.Add(d)
	rel(unsafe.Pointer(b))
	return o
}

// Uint64 mirrors atomic.Uint64.
type Uint64 struct{ v real.Uint64 }

func (b *Uint64) Load() uint64   { acq(unsafe.Pointer(b)); return b.v.Load() }
func (b *Uint64) Store(x uint64) { b.v.Store(x); rel(unsafe.Pointer(b)) }
func (b *Uint64) Add(d uint64) uint64 {
	acq(unsafe.Pointer(b))
	o := b.v.Add(d)
	rel(unsafe.Pointer(b))
	return o
}

// Value mirrors atomic.Value.
type Value struct{ v real.Value }

func (b *Value) Load() any   { acq(unsafe.Pointer(b)); return b.v.Load() }
func (b *Value) Store(x any) { b.v.Store(x); rel(unsafe.Pointer(b)) }

// Pointer mirrors atomic.Pointer[T].
type Pointer[T any] struct{ v real.Pointer[T] }

func (b *Pointer[T]) Load() *T   { acq(unsafe.Pointer(b)); return b.v.Load() }
func (b *Pointer[T]) Store(x *T) { b.v.Store(x); rel(unsafe.Pointer(b)) }
func (b *Pointer[T]) Swap(x *T) *T {
	acq(unsafe.Pointer(b))
	o := b.v.Swap(x)
	rel(unsafe.Pointer(b))
	return o
}
func (b *Pointer[T]) CompareAndSwap(o, n *T) bool {
	acq(unsafe.Pointer(b))
	ok := b.v.CompareAndSwap(o, n)
	rel(unsafe.Pointer(b))
	return ok
}
