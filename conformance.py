#!/usr/bin/env python3
"""Conformance self-test of the simulated kernel and the fsnotify stub.

Seeded random sequences of single-system-call operations on a watched
directory D and an unwatched staging directory S are executed (a) on a real
temporary directory with the REAL fsnotify v1.5.1 on this sandbox's kernel
(confirm/conformreal) and (b) on sim/memfs with the stub
(harness/cmd/conformsim).  Errnos, the per-operation event sequences and the
final directory listing must agree.  Real-kernel timing is only used here
(40 ms settle per operation).  Exit 0 agree, exit 2 disagree (never a
property verdict).
"""
import json, os, random, subprocess, sys, importlib.util, importlib.machinery
VERIF = os.path.dirname(os.path.abspath(__file__))
loader = importlib.machinery.SourceFileLoader("check", os.path.join(VERIF, "check"))
spec = importlib.util.spec_from_loader("check", loader); check = importlib.util.module_from_spec(spec); loader.exec_module(check)

NAMES = ["a.json", "b.yaml", "c", "sub"]

def gen(rng, n):
    ops = []
    def p(): 
        return rng.choice(["D/", "D/", "D/", "S/"]) + rng.choice(NAMES)
    for _ in range(n):
        k = rng.choice(["create", "writefile", "writefile", "append", "truncate", "rename", "rename", "unlink", "unlink",
                        "link", "symlink", "chmod", "mkdir", "rmdir", "rmD", "mkD"])
        if k == "rename":
            ops.append(dict(kind="rename", a=p(), b=p()))
        elif k == "link":
            ops.append(dict(kind="link", a=p(), b=p()))
        elif k == "symlink":
            ops.append(dict(kind="symlink", a=rng.choice(["a.json", "nonexistent", "../S/c"]), b=p()))
        elif k in ("writefile", "append"):
            ops.append(dict(kind=k, a=p(), data="x" * rng.randint(0, 5)))
        elif k == "rmD":
            # empty D, remove it, recreate it, watch it again
            for nm in NAMES:
                ops.append(dict(kind="unlink", a="D/" + nm))
                ops.append(dict(kind="rmdir", a="D/" + nm))
            ops.append(dict(kind="rmdir", a="D"))
            ops.append(dict(kind="add", a="D"))
            ops.append(dict(kind="mkdir", a="D"))
            ops.append(dict(kind="add", a="D"))
        elif k == "mkD":
            ops.append(dict(kind="add", a="D"))
        else:
            ops.append(dict(kind=k, a=p()))
    return ops

def main():
    nseq = int(sys.argv[1]) if len(sys.argv) > 1 else 6
    nops = int(sys.argv[2]) if len(sys.argv) > 2 else 60
    S = check.scratch()
    env = check.ENV
    r = subprocess.run(["go", "build", "-o", S + "/conformreal", "./conformreal"], cwd=VERIF + "/confirm", env=env)
    if r.returncode: sys.exit(2)
    check.build_engine(S, False)
    r = subprocess.run(["go", "build", "-trimpath", "-modfile=" + S + "/harness.mod", "-o", S + "/conformsim", "./cmd/conformsim"], cwd=VERIF + "/harness", env=env)
    if r.returncode: sys.exit(2)
    bad = 0
    total = 0

    def dedup(evs):
        out = []
        for e in evs:
            if not out or out[-1] != e:
                out.append(e)
        return out

    def compare(ops, real, sim):
        """errnos per operation; the event stream as a whole, consecutive duplicates merged
        (whether two identical events coalesce depends on how fast the reader is)"""
        ra, sa = [], []
        for i, (op, a, b) in enumerate(zip(ops, real["results"], sim["results"])):
            ea, eb = a["err"], b["err"]
            if ea.startswith("E:"): ea = "other"
            if eb.startswith("errno"): eb = "other"
            if ea != eb:
                return f"op {i} {op}: errno real {ea} sim {eb}"
            ra += a.get("events") or []
            sa += b.get("events") or []
        ra, sa = dedup(ra), dedup(sa)
        if ra != sa:
            for i, (x, y) in enumerate(zip(ra + [None], sa + [None])):
                if x != y:
                    return f"event #{i}: real {x} sim {y} (real stream {ra[max(0,i-3):i+3]}, sim stream {sa[max(0,i-3):i+3]})"
            return f"event streams differ in length: real {len(ra)} sim {len(sa)}"
        if real["listing"] != sim["listing"]:
            return f"final listing differs: real {real['listing']} sim {sim['listing']}"
        return ""

    for seq in range(nseq):
        rng = random.Random(1000 + seq)
        ops = gen(rng, nops)
        inp = json.dumps(ops).encode()
        sim = json.loads(subprocess.run([S + "/conformsim"], input=inp, stdout=subprocess.PIPE, check=True).stdout)
        total += len(ops)
        why = ""
        for attempt, ms in enumerate((60, 150, 400)):
            # the real run is timing dependent (event lateness under load): a disagreement must persist
            real = json.loads(subprocess.run([S + "/conformreal"], input=inp, stdout=subprocess.PIPE, check=True,
                                             env=dict(os.environ, CONFORM_SETTLE_MS=str(ms))).stdout)
            why = compare(ops, real, sim)
            if not why:
                break
        if why:
            bad += 1
            print(f"conformance: sequence {seq}: {why}")
    print(f"conformance: {nseq} sequences, {total} operations compared, {bad} disagreements")
    sys.exit(2 if bad else 0)

if __name__ == "__main__":
    main()
