// Command mutate applies ONE small syntactic mutation to a Go source file.
// It is the mechanical half of the sensitivity experiments of /verif (the
// other half being the hand-written seeded changes): seeded/mutation.sh
// enumerates the mutants of the library's files, keeps those that compile and
// pass the repository's own test suite, and runs the checks on them.
//
//	mutate -file F -list          one line per mutation point: index, position, operator
//	mutate -file F -n K -o OUT    write F with mutation K applied to OUT
package main

import (
	"bytes"
	"flag"
	"fmt"
	"go/ast"
	"go/format"
	"go/parser"
	"go/token"
	"os"
)

type point struct {
	pos   token.Pos
	what  string
	apply func()
}

var swap = map[token.Token]token.Token{
	token.EQL: token.NEQ, token.NEQ: token.EQL,
	token.LSS: token.LEQ, token.LEQ: token.LSS, token.GTR: token.GEQ, token.GEQ: token.GTR,
	token.LAND: token.LOR, token.LOR: token.LAND,
	token.ADD: token.SUB, token.SUB: token.ADD,
}

func main() {
	file := flag.String("file", "", "Go source file")
	list := flag.Bool("list", false, "list mutation points")
	n := flag.Int("n", -1, "mutation to apply")
	out := flag.String("o", "", "output file")
	flag.Parse()
	fset := token.NewFileSet()
	f, err := parser.ParseFile(fset, *file, nil, parser.ParseComments)
	if err != nil {
		fmt.Fprintln(os.Stderr, err)
		os.Exit(2)
	}
	var pts []point
	add := func(pos token.Pos, what string, apply func()) { pts = append(pts, point{pos, what, apply}) }

	// statement lists: deletion of single statements
	var visitList func(list *[]ast.Stmt)
	visitList = func(list *[]ast.Stmt) {
		for i := range *list {
			i := i
			st := (*list)[i]
			del := func(kind string) {
				add(st.Pos(), "delete "+kind, func() { (*list)[i] = &ast.EmptyStmt{Semicolon: st.Pos()} })
			}
			switch s := st.(type) {
			case *ast.ExprStmt:
				del("call statement")
			case *ast.AssignStmt:
				if s.Tok != token.DEFINE {
					del("assignment")
				}
			case *ast.IncDecStmt:
				del("inc/dec")
			case *ast.DeferStmt:
				del("defer")
			case *ast.GoStmt:
				del("go statement")
			case *ast.SendStmt:
				del("send")
			case *ast.BranchStmt:
				if s.Tok == token.CONTINUE || s.Tok == token.BREAK {
					del(s.Tok.String())
				}
			case *ast.ReturnStmt:
				if len(s.Results) == 0 {
					del("bare return")
				}
			}
		}
	}
	ast.Inspect(f, func(nd ast.Node) bool {
		switch x := nd.(type) {
		case *ast.BlockStmt:
			visitList(&x.List)
		case *ast.CaseClause:
			visitList(&x.Body)
		case *ast.CommClause:
			visitList(&x.Body)
		case *ast.IfStmt:
			c := x.Cond
			add(x.Cond.Pos(), "negate if condition", func() { x.Cond = &ast.UnaryExpr{Op: token.NOT, X: &ast.ParenExpr{X: c}} })
			if x.Else == nil && len(x.Body.List) > 0 {
				add(x.Body.Pos(), "empty if body", func() { x.Body.List = nil })
			}
		case *ast.ForStmt:
			if x.Cond != nil {
				c := x.Cond
				add(x.Cond.Pos(), "negate loop condition", func() { x.Cond = &ast.UnaryExpr{Op: token.NOT, X: &ast.ParenExpr{X: c}} })
			}
		case *ast.BinaryExpr:
			if to, ok := swap[x.Op]; ok {
				if x.Op == token.ADD {
					// string concatenation has no '-'
					if bl, ok := x.X.(*ast.BasicLit); ok && bl.Kind == token.STRING {
						return true
					}
					if bl, ok := x.Y.(*ast.BasicLit); ok && bl.Kind == token.STRING {
						return true
					}
				}
				from := x.Op
				add(x.OpPos, fmt.Sprintf("%s -> %s", from, to), func() { x.Op = to })
			}
		case *ast.ReturnStmt:
			for i, r := range x.Results {
				i := i
				if id, ok := r.(*ast.Ident); ok && id.Name == "err" {
					add(r.Pos(), "return nil instead of err", func() { x.Results[i] = ast.NewIdent("nil") })
				}
			}
		case *ast.Ident:
			if x.Name == "true" {
				add(x.Pos(), "true -> false", func() { x.Name = "false" })
			} else if x.Name == "false" {
				add(x.Pos(), "false -> true", func() { x.Name = "true" })
			}
		}
		return true
	})
	if *list {
		for i, p := range pts {
			fmt.Printf("%d\t%s\t%s\n", i, fset.Position(p.pos), p.what)
		}
		return
	}
	if *n < 0 || *n >= len(pts) {
		fmt.Fprintln(os.Stderr, "no such mutation")
		os.Exit(2)
	}
	pts[*n].apply()
	var buf bytes.Buffer
	if err := format.Node(&buf, fset, f); err != nil {
		fmt.Fprintln(os.Stderr, err)
		os.Exit(2)
	}
	if err := os.WriteFile(*out, buf.Bytes(), 0o644); err != nil {
		fmt.Fprintln(os.Stderr, err)
		os.Exit(2)
	}
}
