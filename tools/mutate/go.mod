module verif/tools/mutate

go 1.23
