package main

import "golang.org/x/tools/go/ast/astutil"

// raceState implements R6; filled in race_impl.go.
type raceState struct {
	r    *rewriter
	impl *raceImpl
}

func newRaceState(r *rewriter, f interface{}) *raceState {
	return &raceState{r: r, impl: newRaceImpl(r)}
}

func (s *raceState) pre(c *astutil.Cursor) bool { return s.impl.pre(c) }
func (s *raceState) post(c *astutil.Cursor)     { s.impl.post(c) }
