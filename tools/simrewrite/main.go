// simrewrite rewrites a scratch copy of the repository so that it runs on the
// simulator: imports of os, path/filepath, io/ioutil, golang.org/x/sys/unix,
// syscall, sync and time are re-pointed at the shims (R1); go statements
// become simulated tasks (R3); blocking receives announce themselves to the
// scheduler (R4); ranges over maps iterate in an order chosen by the
// simulator (R5); with -race every struct-field, package-variable and map
// access is reported to the happens-before race detector (R6); every
// package-level variable can be reset between runs (R7).
//
// It never touches /repo: it is run on a copy.  Anything it cannot handle
// stops the build with a diagnostic (exit 2), never a verdict.
package main

import (
	"bytes"
	"flag"
	"fmt"
	"go/ast"
	"go/format"
	"go/token"
	"go/types"
	"os"
	"path/filepath"
	"sort"
	"strconv"
	"strings"

	"golang.org/x/tools/go/ast/astutil"
	"golang.org/x/tools/go/packages"
)

var importMap = map[string][2]string{
	"os":                    {"verif/sim/simos", "os"},
	"path/filepath":         {"verif/sim/simfilepath", "filepath"},
	"io/ioutil":             {"verif/sim/simioutil", "ioutil"},
	"golang.org/x/sys/unix": {"verif/sim/simunix", "unix"},
	"syscall":               {"verif/sim/simsyscall", "syscall"},
	"sync":                  {"verif/sim/simsync", "sync"},
	"time":                  {"verif/sim/simtime", "time"},
	"sync/atomic":           {"verif/sim/simatomic", "atomic"},
	"math/rand":             {"verif/sim/simrand", "rand"},
	"math/rand/v2":          {"verif/sim/simrand2", "rand"},
	"crypto/rand":           {"verif/sim/simcrand", "rand"},
}

var forbidden = map[string]bool{
	"net": true, "net/http": true, "os/exec": true,
	"os/signal": true, "sync/atomic": false,
}

type site struct {
	ID   int
	Pos  string
	Kind string
	What string
}

type rewriter struct {
	fset    *token.FileSet
	pkg     *packages.Package
	info    *types.Info
	race    bool
	sites   []site
	errs    []string
	needRT  map[*ast.File]bool
	file    *ast.File
	nsite   *int
	local   map[string]bool // import paths of the packages being rewritten
	raceCtx *raceState
}

func (r *rewriter) errorf(pos token.Pos, format string, a ...any) {
	r.errs = append(r.errs, fmt.Sprintf("%s: %s", r.fset.Position(pos), fmt.Sprintf(format, a...)))
}

func (r *rewriter) addSite(pos token.Pos, kind, what string) int {
	*r.nsite++
	p := r.fset.Position(pos)
	rel := p.Filename
	if i := strings.Index(rel, "/pkg/"); i >= 0 {
		rel = rel[i+1:]
	} else {
		rel = filepath.Base(rel)
	}
	r.sites = append(r.sites, site{ID: *r.nsite, Pos: fmt.Sprintf("%s:%d", rel, p.Line), Kind: kind, What: what})
	return *r.nsite
}

func ident(n string) *ast.Ident { return ast.NewIdent(n) }

func rtCall(fn string, args ...ast.Expr) *ast.CallExpr {
	return &ast.CallExpr{Fun: &ast.SelectorExpr{X: ident("simrt"), Sel: ident(fn)}, Args: args}
}

func strLit(s string) *ast.BasicLit {
	return &ast.BasicLit{Kind: token.STRING, Value: strconv.Quote(s)}
}

func intLit(i int) *ast.BasicLit {
	return &ast.BasicLit{Kind: token.INT, Value: strconv.Itoa(i)}
}

func exprString(fset *token.FileSet, e ast.Expr) string {
	var b bytes.Buffer
	_ = format.Node(&b, fset, e)
	return b.String()
}

// pure reports whether evaluating e twice is harmless (identifiers, selectors, derefs, parens).
func pure(e ast.Expr) bool {
	switch x := e.(type) {
	case *ast.Ident:
		return true
	case *ast.SelectorExpr:
		return pure(x.X)
	case *ast.StarExpr:
		return pure(x.X)
	case *ast.ParenExpr:
		return pure(x.X)
	}
	return false
}

func (r *rewriter) isMap(e ast.Expr) bool {
	t := r.typeOf(e)
	if t == nil {
		return false
	}
	_, ok := t.Underlying().(*types.Map)
	return ok
}

func (r *rewriter) typeOf(e ast.Expr) types.Type {
	if r.raceCtx != nil {
		return r.raceCtx.impl.typeOf(e)
	}
	return r.info.TypeOf(e)
}

func (r *rewriter) isChan(e ast.Expr) bool {
	t := r.typeOf(e)
	if t == nil {
		return false
	}
	_, ok := t.Underlying().(*types.Chan)
	return ok
}

// rewriteFile applies R3, R4, R5 (and R6 when enabled) to one file.
func (r *rewriter) rewriteFile(f *ast.File) {
	r.file = f
	labeled := map[ast.Stmt]bool{}
	ast.Inspect(f, func(n ast.Node) bool {
		if l, ok := n.(*ast.LabeledStmt); ok {
			labeled[l.Stmt] = true
		}
		return true
	})
	var raceCtx *raceState
	if r.race {
		raceCtx = newRaceState(r, f)
	}
	r.raceCtx = raceCtx
	astutil.Apply(f, func(c *astutil.Cursor) bool {
		if raceCtx != nil {
			return raceCtx.pre(c)
		}
		return true
	}, func(c *astutil.Cursor) bool {
		if raceCtx != nil {
			raceCtx.post(c)
		}
		switch n := c.Node().(type) {
		case *ast.GoStmt:
			r.needRT[f] = true
			c.Replace(r.rewriteGo(n))
		case *ast.SelectStmt:
			if st := r.rewriteSelect(n, labeled[n]); st != nil {
				r.needRT[f] = true
				c.Replace(st)
			}
		case *ast.CallExpr:
			if id, ok := n.Fun.(*ast.Ident); ok && id.Name == "close" && len(n.Args) == 1 {
				if _, isBuiltin := r.info.Uses[id].(*types.Builtin); isBuiltin {
					r.needRT[f] = true
					r.addSite(n.Pos(), "close", exprString(r.fset, unwrapAll(n.Args[0])))
					c.Replace(rtCall("Close", n.Args[0]))
				}
			}
		case *ast.UnaryExpr:
			if n.Op == token.ARROW {
				if _, inComm := c.Parent().(*ast.CommClause); inComm {
					return true
				}
				if as, ok := c.Parent().(*ast.AssignStmt); ok {
					if _, inComm := commParent[as]; inComm {
						return true
					}
					if len(as.Lhs) == 2 && len(as.Rhs) == 1 {
						r.needRT[f] = true
						r.addSite(n.Pos(), "recv", exprString(r.fset, n.X))
						c.Replace(rtCall("Recv2", n.X))
						return true
					}
				}
				if es, ok := c.Parent().(*ast.ExprStmt); ok {
					if _, inComm := commParent[es]; inComm {
						return true
					}
				}
				r.needRT[f] = true
				r.addSite(n.Pos(), "recv", exprString(r.fset, n.X))
				c.Replace(rtCall("Recv", n.X))
			}
		case *ast.SendStmt:
			if cc, inComm := c.Parent().(*ast.CommClause); !inComm || cc.Comm != ast.Stmt(n) {
				r.needRT[f] = true
				r.addSite(n.Pos(), "send", exprString(r.fset, unwrapAll(n.Chan)))
				c.Replace(&ast.ExprStmt{X: rtCall("Send", n.Chan, n.Value)})
			}
		case *ast.RangeStmt:
			if r.isChan(n.X) {
				if st := r.rewriteChanRange(n); st != nil {
					r.needRT[f] = true
					c.Replace(st)
				}
				return true
			}
			if r.isMap(n.X) {
				r.needRT[f] = true
				r.rewriteMapRange(n)
			}
		}
		return true
	})
}

// commParent marks the statements that are the Comm of a select clause.
var commParent = map[ast.Stmt]bool{}

func (r *rewriter) markComms(f *ast.File) {
	ast.Inspect(f, func(n ast.Node) bool {
		if cc, ok := n.(*ast.CommClause); ok && cc.Comm != nil {
			commParent[cc.Comm] = true
		}
		return true
	})
}

func (r *rewriter) rewriteGo(g *ast.GoStmt) ast.Stmt {
	call := g.Call
	name := exprString(r.fset, call.Fun)
	if _, ok := call.Fun.(*ast.FuncLit); ok {
		name = "func"
	}
	r.addSite(g.Pos(), "go", name)
	if len(name) > 24 {
		name = name[:24]
	}
	if fl, ok := call.Fun.(*ast.FuncLit); ok && len(call.Args) == 0 {
		return &ast.ExprStmt{X: rtCall("Go", strLit(name), fl)}
	}
	// { simfn, sima0, ... := f, a0, ... ; simrt.Go(name, func(){ simfn(sima0, ...) }) }
	var lhs, rhs []ast.Expr
	lhs = append(lhs, ident("simfn"))
	rhs = append(rhs, call.Fun)
	var args []ast.Expr
	for i, a := range call.Args {
		v := ident("sima" + strconv.Itoa(i))
		lhs = append(lhs, v)
		rhs = append(rhs, a)
		args = append(args, v)
	}
	inner := &ast.CallExpr{Fun: ident("simfn"), Args: args, Ellipsis: call.Ellipsis}
	if call.Ellipsis != token.NoPos {
		inner.Ellipsis = 1
	}
	return &ast.BlockStmt{List: []ast.Stmt{
		&ast.AssignStmt{Lhs: lhs, Tok: token.DEFINE, Rhs: rhs},
		&ast.ExprStmt{X: rtCall("Go", strLit(name), &ast.FuncLit{
			Type: &ast.FuncType{Params: &ast.FieldList{}},
			Body: &ast.BlockStmt{List: []ast.Stmt{&ast.ExprStmt{X: inner}}},
		})},
	}}
}

// rewriteSelect turns a select statement into
//
//	switch simrt.Select(hasDefault, simrt.RecvCase(ch0), simrt.SendCase(ch1), ...) {
//	case 0: v, ok := simrt.Recv2Now(ch0); body0
//	case 1: simrt.SendNow(ch1, x); body1
//	default: bodyDefault        // only if the select had a default clause
//	}
//
// break/continue keep their meaning (break leaves the switch as it left the
// select).  Channel expressions with side effects (time.After(d)) are
// evaluated once, before the switch.
func (r *rewriter) rewriteSelect(s *ast.SelectStmt, isLabeled bool) ast.Stmt {
	var hoist []ast.Stmt
	var cases []ast.Expr
	var clauses []ast.Stmt
	hasDefault := false
	line := r.fset.Position(s.Pos()).Line
	chanExpr := func(e ast.Expr) ast.Expr {
		if pure(unwrapAll(e)) {
			return e
		}
		name := fmt.Sprintf("simch%d_%d", line, len(hoist))
		hoist = append(hoist, &ast.AssignStmt{Lhs: []ast.Expr{ident(name)}, Tok: token.DEFINE, Rhs: []ast.Expr{e}})
		return ident(name)
	}
	idx := 0
	for _, cl := range s.Body.List {
		cc := cl.(*ast.CommClause)
		if cc.Comm == nil {
			hasDefault = true
			clauses = append(clauses, &ast.CaseClause{List: nil, Body: cc.Body})
			continue
		}
		var first ast.Stmt
		switch st := cc.Comm.(type) {
		case *ast.SendStmt:
			ch := chanExpr(st.Chan)
			cases = append(cases, rtCall("SendCase", ch))
			first = &ast.ExprStmt{X: rtCall("SendNow", ch, st.Value)}
		case *ast.ExprStmt:
			u, ok := unparenExpr(st.X).(*ast.UnaryExpr)
			if !ok || u.Op != token.ARROW {
				r.errorf(cc.Pos(), "unsupported select case")
				return nil
			}
			ch := chanExpr(u.X)
			cases = append(cases, rtCall("RecvCase", ch))
			first = &ast.AssignStmt{Lhs: []ast.Expr{ident("_")}, Tok: token.ASSIGN, Rhs: []ast.Expr{rtCall("RecvNow", ch)}}
		case *ast.AssignStmt:
			if len(st.Rhs) != 1 {
				r.errorf(cc.Pos(), "unsupported select case")
				return nil
			}
			u, ok := unparenExpr(st.Rhs[0]).(*ast.UnaryExpr)
			if !ok || u.Op != token.ARROW {
				r.errorf(cc.Pos(), "unsupported select case")
				return nil
			}
			ch := chanExpr(u.X)
			cases = append(cases, rtCall("RecvCase", ch))
			fn := "RecvNow"
			if len(st.Lhs) == 2 {
				fn = "Recv2Now"
			}
			first = &ast.AssignStmt{Lhs: st.Lhs, Tok: st.Tok, Rhs: []ast.Expr{rtCall(fn, ch)}}
		default:
			r.errorf(cc.Pos(), "unsupported select case")
			return nil
		}
		body := append([]ast.Stmt{first}, cc.Body...)
		clauses = append(clauses, &ast.CaseClause{List: []ast.Expr{intLit(idx)}, Body: body})
		idx++
	}
	hd := ident("false")
	if hasDefault {
		hd = ident("true")
	}
	args := append([]ast.Expr{hd}, cases...)
	sw := &ast.SwitchStmt{Tag: rtCall("Select", args...), Body: &ast.BlockStmt{List: clauses}}
	r.addSite(s.Pos(), "select", fmt.Sprintf("%d cases, default=%v", len(cases), hasDefault))
	if len(hoist) == 0 {
		return sw
	}
	if isLabeled {
		r.errorf(s.Pos(), "labeled select with a channel expression that has side effects is not simulated")
		return nil
	}
	return &ast.BlockStmt{List: append(hoist, sw)}
}

func unparenExpr(e ast.Expr) ast.Expr {
	for {
		p, ok := e.(*ast.ParenExpr)
		if !ok {
			return e
		}
		e = p.X
	}
}

// rewriteChanRange turns `for v := range ch { body }` into a loop over simrt.Recv2.
func (r *rewriter) rewriteChanRange(rs *ast.RangeStmt) ast.Stmt {
	if !pure(unwrapAll(rs.X)) {
		r.errorf(rs.Pos(), "range over a channel expression with side effects is not simulated")
		return nil
	}
	line := r.fset.Position(rs.Pos()).Line
	okName := fmt.Sprintf("simok%d", line)
	vName := fmt.Sprintf("simv%d", line)
	r.addSite(rs.Pos(), "chanrange", exprString(r.fset, unwrapAll(rs.X)))
	pre := []ast.Stmt{
		&ast.AssignStmt{Lhs: []ast.Expr{ident(vName), ident(okName)}, Tok: token.DEFINE, Rhs: []ast.Expr{rtCall("Recv2", rs.X)}},
		&ast.IfStmt{Cond: &ast.UnaryExpr{Op: token.NOT, X: ident(okName)}, Body: &ast.BlockStmt{List: []ast.Stmt{&ast.BranchStmt{Tok: token.BREAK}}}},
	}
	if rs.Key != nil {
		if id, ok := rs.Key.(*ast.Ident); !ok || id.Name != "_" {
			tok := rs.Tok
			pre = append(pre, &ast.AssignStmt{Lhs: []ast.Expr{rs.Key}, Tok: tok, Rhs: []ast.Expr{ident(vName)}})
			if tok == token.DEFINE {
				pre = append(pre, &ast.AssignStmt{Lhs: []ast.Expr{ident("_")}, Tok: token.ASSIGN, Rhs: []ast.Expr{rs.Key}})
			}
		} else {
			pre = append(pre, &ast.AssignStmt{Lhs: []ast.Expr{ident("_")}, Tok: token.ASSIGN, Rhs: []ast.Expr{ident(vName)}})
		}
	} else {
		pre = append(pre, &ast.AssignStmt{Lhs: []ast.Expr{ident("_")}, Tok: token.ASSIGN, Rhs: []ast.Expr{ident(vName)}})
	}
	return &ast.ForStmt{Body: &ast.BlockStmt{List: append(pre, rs.Body.List...)}}
}

// unwrapRace strips *simrt.R(&x, n) wrappers (for the purity test).
func unwrapRace(e ast.Expr) ast.Expr {
	for {
		switch x := e.(type) {
		case *ast.ParenExpr:
			e = x.X
			continue
		case *ast.StarExpr:
			if c, ok := x.X.(*ast.CallExpr); ok {
				if s, ok := c.Fun.(*ast.SelectorExpr); ok {
					if id, ok := s.X.(*ast.Ident); ok && id.Name == "simrt" && len(c.Args) >= 1 {
						if u, ok := c.Args[0].(*ast.UnaryExpr); ok && u.Op == token.AND {
							return unwrapPure(u.X)
						}
					}
				}
			}
		case *ast.CallExpr:
			if s, ok := x.Fun.(*ast.SelectorExpr); ok {
				if id, ok := s.X.(*ast.Ident); ok && id.Name == "simrt" && (s.Sel.Name == "MR" || s.Sel.Name == "MW") && len(x.Args) >= 1 {
					return unwrapPure(x.Args[0])
				}
			}
		}
		return e
	}
}

func unwrapPure(e ast.Expr) ast.Expr {
	switch x := e.(type) {
	case *ast.SelectorExpr:
		return &ast.SelectorExpr{X: unwrapRace(x.X), Sel: x.Sel}
	}
	return unwrapRace(e)
}

func (r *rewriter) rewriteMapRange(rs *ast.RangeStmt) {
	m := rs.X
	impure := !pure(unwrapAll(m))
	line := r.fset.Position(rs.Pos()).Line
	r.addSite(rs.Pos(), "maprange", exprString(r.fset, unwrapAll(m)))
	kName := fmt.Sprintf("simk%d", line)
	vName := fmt.Sprintf("simv%d", line)
	okName := fmt.Sprintf("simok%d", line)
	isBlank := func(e ast.Expr) bool {
		if e == nil {
			return true
		}
		id, ok := e.(*ast.Ident)
		return ok && id.Name == "_"
	}
	var pre []ast.Stmt
	needV := !isBlank(rs.Value)
	// simv, simok := m[simk]; if !simok { continue }
	vIdent := ast.Expr(ident("_"))
	if needV {
		vIdent = ident(vName)
	}
	// the live read of the entry: m[simk], or - when m has side effects and
	// must be evaluated once, as Go does - simk.Get() on a simrt.Entry
	var read ast.Expr = &ast.IndexExpr{X: m, Index: ident(kName)}
	var keyExpr ast.Expr = ident(kName)
	if impure {
		read = &ast.CallExpr{Fun: &ast.SelectorExpr{X: ident(kName), Sel: ident("Get")}}
		keyExpr = &ast.SelectorExpr{X: ident(kName), Sel: ident("K")}
	}
	pre = append(pre,
		&ast.AssignStmt{Lhs: []ast.Expr{vIdent, ident(okName)}, Tok: token.DEFINE,
			Rhs: []ast.Expr{read}},
		&ast.IfStmt{Cond: &ast.UnaryExpr{Op: token.NOT, X: ident(okName)},
			Body: &ast.BlockStmt{List: []ast.Stmt{&ast.BranchStmt{Tok: token.CONTINUE}}}},
	)
	var lhs, rhs []ast.Expr
	if !isBlank(rs.Key) {
		lhs = append(lhs, rs.Key)
		rhs = append(rhs, keyExpr)
	}
	if needV {
		lhs = append(lhs, rs.Value)
		rhs = append(rhs, ident(vName))
	}
	if len(lhs) > 0 {
		tok := rs.Tok
		if tok == token.ILLEGAL {
			tok = token.ASSIGN
		}
		pre = append(pre, &ast.AssignStmt{Lhs: lhs, Tok: tok, Rhs: rhs})
		if tok == token.DEFINE {
			// keep "declared and not used" away if the body never reads them
			for _, l := range lhs {
				pre = append(pre, &ast.AssignStmt{Lhs: []ast.Expr{ident("_")}, Tok: token.ASSIGN, Rhs: []ast.Expr{l}})
			}
		}
	}
	keys := rtCall("Keys", m)
	if impure {
		keys = rtCall("Entries", m)
	}
	rs.Key = ident("_")
	rs.Value = ident(kName)
	rs.Tok = token.DEFINE
	rs.X = keys
	rs.Body.List = append(pre, rs.Body.List...)
}

func (r *rewriter) rewriteImports(f *ast.File) {
	for _, is := range f.Imports {
		p, _ := strconv.Unquote(is.Path.Value)
		if forbidden[p] {
			r.errorf(is.Pos(), "import of %q in simulated code: this source of nondeterminism has no seam", p)
		}
		if to, ok := importMap[p]; ok {
			is.Path.Value = strconv.Quote(to[0])
			if is.Name == nil {
				is.Name = ident(to[1])
			}
		}
	}
}

// genReset generates zz_simreset.go for a package (R7).
func genReset(pkg *packages.Package) string {
	var names []string
	scope := pkg.Types.Scope()
	for _, n := range scope.Names() {
		v, ok := scope.Lookup(n).(*types.Var)
		if !ok || n == "_" {
			continue
		}
		_ = v
		names = append(names, n)
	}
	sort.Strings(names)
	var b strings.Builder
	fmt.Fprintf(&b, "// Code generated by simrewrite (R7). DO NOT EDIT.\n\npackage %s\n\nimport simrt \"verif/sim/simrt\"\n\n", pkg.Name)
	if len(names) == 0 {
		b.WriteString("var _ = simrt.MapOrder\n")
		return b.String()
	}
	for i, n := range names {
		fmt.Fprintf(&b, "var simSaved%d = %s\n", i, n)
	}
	b.WriteString("\nfunc init() {\n\tsimrt.RegisterReset(func() {\n")
	for i, n := range names {
		fmt.Fprintf(&b, "\t\t%s = simSaved%d\n", n, i)
	}
	b.WriteString("\t})\n}\n")
	return b.String()
}

func main() {
	race := flag.Bool("race", false, "R6: instrument memory accesses for the happens-before race detector")
	sitesOut := flag.String("sites", "", "write the list of rewritten sites to this file")
	flag.Parse()
	if flag.NArg() != 1 {
		fmt.Fprintln(os.Stderr, "usage: simrewrite [-race] [-sites file] <module dir>")
		os.Exit(2)
	}
	dir, _ := filepath.Abs(flag.Arg(0))
	cfg := &packages.Config{
		Mode: packages.NeedName | packages.NeedFiles | packages.NeedCompiledGoFiles | packages.NeedSyntax |
			packages.NeedTypes | packages.NeedTypesInfo | packages.NeedImports | packages.NeedDeps | packages.NeedModule,
		Dir:   dir,
		Tests: false,
	}
	pkgs, err := packages.Load(cfg, "./...")
	if err != nil {
		fmt.Fprintln(os.Stderr, "simrewrite: load:", err)
		os.Exit(2)
	}
	bad := false
	for _, p := range pkgs {
		for _, e := range p.Errors {
			fmt.Fprintln(os.Stderr, "simrewrite: type error:", e)
			bad = true
		}
	}
	if bad {
		os.Exit(2)
	}
	sort.Slice(pkgs, func(i, j int) bool { return pkgs[i].PkgPath < pkgs[j].PkgPath })
	nsite := 0
	var allSites []site
	var allErrs []string
	local := map[string]bool{}
	for _, p := range pkgs {
		local[p.PkgPath] = true
	}
	for _, p := range pkgs {
		if len(p.Syntax) == 0 {
			continue
		}
		r := &rewriter{fset: p.Fset, pkg: p, info: p.TypesInfo, race: *race, needRT: map[*ast.File]bool{}, nsite: &nsite, local: local}
		for _, f := range p.Syntax {
			r.markComms(f)
		}
		for i, f := range p.Syntax {
			r.rewriteFile(f)
			r.rewriteImports(f)
			if r.needRT[f] {
				astutil.AddNamedImport(p.Fset, f, "simrt", "verif/sim/simrt")
			}
			var buf bytes.Buffer
			if err := format.Node(&buf, p.Fset, f); err != nil {
				allErrs = append(allErrs, fmt.Sprintf("%s: print: %v", p.CompiledGoFiles[i], err))
				continue
			}
			if err := os.WriteFile(p.CompiledGoFiles[i], buf.Bytes(), 0o644); err != nil {
				allErrs = append(allErrs, err.Error())
			}
		}
		if len(p.GoFiles) > 0 {
			out := filepath.Join(filepath.Dir(p.GoFiles[0]), "zz_simreset.go")
			if err := os.WriteFile(out, []byte(genReset(p)), 0o644); err != nil {
				allErrs = append(allErrs, err.Error())
			}
		}
		if len(p.GoFiles) > 0 && len(r.sites) > 0 {
			var b strings.Builder
			fmt.Fprintf(&b, "// Code generated by simrewrite. DO NOT EDIT.\n\npackage %s\n\nimport simrt \"verif/sim/simrt\"\n\nfunc init() {\n\tsimrt.RegisterSites(map[int]string{\n", p.Name)
			for _, st := range r.sites {
				fmt.Fprintf(&b, "\t\t%d: %q,\n", st.ID, st.Kind+" "+st.What+" ("+st.Pos+")")
			}
			b.WriteString("\t})\n}\n")
			out := filepath.Join(filepath.Dir(p.GoFiles[0]), "zz_simsites.go")
			if err := os.WriteFile(out, []byte(b.String()), 0o644); err != nil {
				allErrs = append(allErrs, err.Error())
			}
		}
		allSites = append(allSites, r.sites...)
		allErrs = append(allErrs, r.errs...)
	}
	if len(allErrs) > 0 {
		for _, e := range allErrs {
			fmt.Fprintln(os.Stderr, "simrewrite:", e)
		}
		os.Exit(2)
	}
	if *sitesOut != "" {
		var b strings.Builder
		for _, s := range allSites {
			fmt.Fprintf(&b, "%d\t%s\t%s\t%s\n", s.ID, s.Kind, s.Pos, s.What)
		}
		_ = os.WriteFile(*sitesOut, []byte(b.String()), 0o644)
	}
	fmt.Printf("simrewrite: %d packages, %d sites rewritten\n", len(pkgs), len(allSites))
}
