package main

import "golang.org/x/tools/go/ast/astutil"

type raceImpl struct{ r *rewriter }

func newRaceImpl(r *rewriter) *raceImpl        { return &raceImpl{r: r} }
func (s *raceImpl) pre(c *astutil.Cursor) bool { return true }
func (s *raceImpl) post(c *astutil.Cursor)     {}
