package main

import (
	"go/ast"
	"go/token"
	"go/types"
	"strings"

	"golang.org/x/tools/go/ast/astutil"
)

// raceImpl implements R6: every addressable struct-field selector, every
// reference to a package-level variable of a rewritten package and every map
// operation is wrapped at expression level so that the happens-before race
// detector sees it.  Wrapping preserves evaluation order and addressability:
//
//	x.f          =>  *simrt.R(&x.f, site)
//	x.f = v      =>  *simrt.W(&x.f, site) = v
//	m[k]         =>  simrt.MR(m, site)[k]
//	m[k] = v     =>  simrt.MW(m, site)[k] = v
//	delete(m,k)  =>  delete(simrt.MW(m, site), k)
//	len(m)       =>  len(simrt.MR(m, site))
type raceImpl struct {
	r      *rewriter
	write  map[ast.Node]bool // original nodes in write position
	skip   map[ast.Node]bool // original nodes not to wrap (operand of &, declarations)
	funcs  []string
	synth  map[ast.Expr]types.Type
	mapLHS map[ast.Node]bool
}

func newRaceImpl(r *rewriter) *raceImpl {
	return &raceImpl{r: r, write: map[ast.Node]bool{}, skip: map[ast.Node]bool{}, synth: map[ast.Expr]types.Type{}, mapLHS: map[ast.Node]bool{}}
}

func unparen(e ast.Expr) ast.Expr {
	for {
		p, ok := e.(*ast.ParenExpr)
		if !ok {
			return e
		}
		e = p.X
	}
}

func (s *raceImpl) typeOf(e ast.Expr) types.Type {
	if t, ok := s.synth[e]; ok {
		return t
	}
	return s.r.info.TypeOf(e)
}

func isSyncType(t types.Type) bool {
	if t == nil {
		return false
	}
	str := t.String()
	return strings.HasPrefix(str, "sync.") || strings.HasPrefix(str, "verif/sim/simsync.") || strings.HasPrefix(str, "*sync.") ||
		strings.HasPrefix(str, "sync/atomic.") || strings.HasPrefix(str, "verif/sim/simatomic.")
}

func (s *raceImpl) curFunc() string {
	if len(s.funcs) == 0 {
		return "init"
	}
	return s.funcs[len(s.funcs)-1]
}

func (s *raceImpl) markWrite(e ast.Expr) {
	e = unparen(e)
	switch x := e.(type) {
	case *ast.SelectorExpr, *ast.Ident:
		s.write[x] = true
	case *ast.IndexExpr:
		s.mapLHS[x] = true
	}
}

func (s *raceImpl) pre(c *astutil.Cursor) bool {
	switch n := c.Node().(type) {
	case *ast.FuncDecl:
		name := n.Name.Name
		if n.Recv != nil && len(n.Recv.List) > 0 {
			t := n.Recv.List[0].Type
			if st, ok := t.(*ast.StarExpr); ok {
				t = st.X
			}
			if id, ok := t.(*ast.Ident); ok {
				name = id.Name + "." + name
			}
		}
		s.funcs = append(s.funcs, name)
	case *ast.AssignStmt:
		if n.Tok != token.DEFINE {
			for _, l := range n.Lhs {
				s.markWrite(l)
			}
		}
	case *ast.IncDecStmt:
		s.markWrite(n.X)
	case *ast.RangeStmt:
		if n.Tok == token.ASSIGN {
			if n.Key != nil {
				s.markWrite(n.Key)
			}
			if n.Value != nil {
				s.markWrite(n.Value)
			}
		}
	case *ast.UnaryExpr:
		if n.Op == token.AND {
			s.skip[unparen(n.X)] = true
		}
	case *ast.ValueSpec:
		for _, id := range n.Names {
			s.skip[id] = true
		}
	case *ast.KeyValueExpr:
		if id, ok := n.Key.(*ast.Ident); ok {
			// struct literal field names are identifiers resolved to fields; never wrap
			s.skip[id] = true
		}
	case *ast.SelectorExpr:
		// the Sel identifier itself is never a standalone variable reference
		s.skip[n.Sel] = true
	}
	return true
}

func (s *raceImpl) wrapPtr(e ast.Expr, write bool, what string, t types.Type) ast.Expr {
	fn := "R"
	kind := "read"
	if write {
		fn, kind = "W", "write"
	}
	id := s.r.addSite(e.Pos(), kind, s.curFunc()+": "+what)
	s.r.needRT[s.r.file] = true
	out := &ast.StarExpr{X: rtCall(fn, &ast.UnaryExpr{Op: token.AND, X: e}, intLit(id))}
	res := ast.Expr(&ast.ParenExpr{X: out})
	s.synth[res] = t
	return res
}

func (s *raceImpl) wrapMap(m ast.Expr, write bool, what string) ast.Expr {
	fn := "MR"
	kind := "mapread"
	if write {
		fn, kind = "MW", "mapwrite"
	}
	id := s.r.addSite(m.Pos(), kind, s.curFunc()+": "+what)
	s.r.needRT[s.r.file] = true
	out := rtCall(fn, m, intLit(id))
	s.synth[out] = s.typeOf(m)
	return out
}

func (s *raceImpl) isMapExpr(e ast.Expr) bool {
	t := s.typeOf(e)
	if t == nil {
		return false
	}
	_, ok := t.Underlying().(*types.Map)
	return ok
}

func (s *raceImpl) post(c *astutil.Cursor) {
	info := s.r.info
	switch n := c.Node().(type) {
	case *ast.FuncDecl:
		if len(s.funcs) > 0 {
			s.funcs = s.funcs[:len(s.funcs)-1]
		}
	case *ast.SelectorExpr:
		if s.skip[n] {
			return
		}
		if sel, ok := info.Selections[n]; ok {
			if sel.Kind() != types.FieldVal {
				return
			}
			tv, ok := info.Types[n]
			if !ok || !tv.Addressable() || isSyncType(tv.Type) {
				return
			}
			what := exprString(s.r.fset, unwrapAll(n))
			c.Replace(s.wrapPtr(n, s.write[n], what, tv.Type))
			return
		}
		// qualified identifier: a package-level variable of another rewritten package
		if v, ok := info.Uses[n.Sel].(*types.Var); ok && v.Pkg() != nil && s.r.local[v.Pkg().Path()] && v.Parent() == v.Pkg().Scope() && !isSyncType(v.Type()) {
			c.Replace(s.wrapPtr(n, s.write[n], exprString(s.r.fset, n), v.Type()))
		}
	case *ast.Ident:
		if s.skip[n] || n.Name == "_" {
			return
		}
		if _, isDef := info.Defs[n]; isDef {
			return
		}
		v, ok := info.Uses[n].(*types.Var)
		if !ok || v.IsField() || v.Pkg() == nil || v.Parent() != v.Pkg().Scope() || isSyncType(v.Type()) {
			return
		}
		// do not wrap when the parent is a selector using this ident as a package-level struct: x.f handles x itself here
		c.Replace(s.wrapPtr(n, s.write[n], n.Name, v.Type()))
	case *ast.IndexExpr:
		if s.isMapExpr(n.X) {
			what := exprString(s.r.fset, unwrapAll(n.X))
			n.X = s.wrapMap(n.X, s.mapLHS[n], what)
		}
	case *ast.CallExpr:
		if id, ok := n.Fun.(*ast.Ident); ok && len(n.Args) >= 1 {
			if _, isBuiltin := info.Uses[id].(*types.Builtin); isBuiltin {
				switch id.Name {
				case "delete":
					if s.isMapExpr(n.Args[0]) {
						n.Args[0] = s.wrapMap(n.Args[0], true, exprString(s.r.fset, unwrapAll(n.Args[0])))
					}
				case "len":
					if s.isMapExpr(n.Args[0]) {
						n.Args[0] = s.wrapMap(n.Args[0], false, exprString(s.r.fset, unwrapAll(n.Args[0])))
					}
				}
			}
		}
	case *ast.RangeStmt:
		if s.isMapExpr(n.X) {
			n.X = s.wrapMap(n.X, false, exprString(s.r.fset, unwrapAll(n.X)))
		}
	}
}

// unwrapAll strips every instrumentation wrapper inside e (for readable site descriptions).
func unwrapAll(e ast.Expr) ast.Expr {
	switch x := e.(type) {
	case *ast.ParenExpr:
		if st, ok := x.X.(*ast.StarExpr); ok {
			if c, ok := st.X.(*ast.CallExpr); ok && isRT(c, "R", "W") {
				if u, ok := c.Args[0].(*ast.UnaryExpr); ok {
					return unwrapAll(u.X)
				}
			}
		}
		return &ast.ParenExpr{X: unwrapAll(x.X)}
	case *ast.StarExpr:
		if c, ok := x.X.(*ast.CallExpr); ok && isRT(c, "R", "W") {
			if u, ok := c.Args[0].(*ast.UnaryExpr); ok {
				return unwrapAll(u.X)
			}
		}
		return &ast.StarExpr{X: unwrapAll(x.X)}
	case *ast.CallExpr:
		if isRT(x, "MR", "MW") {
			return unwrapAll(x.Args[0])
		}
	case *ast.SelectorExpr:
		return &ast.SelectorExpr{X: unwrapAll(x.X), Sel: x.Sel}
	case *ast.IndexExpr:
		return &ast.IndexExpr{X: unwrapAll(x.X), Index: x.Index}
	}
	return e
}

func isRT(c *ast.CallExpr, names ...string) bool {
	s, ok := c.Fun.(*ast.SelectorExpr)
	if !ok {
		return false
	}
	id, ok := s.X.(*ast.Ident)
	if !ok || id.Name != "simrt" || len(c.Args) < 1 {
		return false
	}
	for _, n := range names {
		if s.Sel.Name == n {
			return true
		}
	}
	return false
}
